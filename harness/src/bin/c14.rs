//! C14 Text draws the glyph the font's mapping designates, in the right cell
use egverif::catalog::TestColor;
use egverif::fw::*;
use egverif::targets::*;
use egverif::texts::*;
use embedded_graphics::image::{GetPixel, ImageRaw};
use embedded_graphics::mono_font::mapping::{self, GlyphMapping, StrGlyphMapping};
use embedded_graphics::mono_font::{DecorationDimensions, MonoFont};
use embedded_graphics::pixelcolor::{BinaryColor, Rgb565};
use embedded_graphics::prelude::*;
use embedded_graphics::text::{Baseline, Text};
use serde::{Deserialize, Serialize};

type C = Rgb565;

fn named_mapping(subset: &str) -> &'static StrGlyphMapping<'static> {
    match subset {
        "ascii" => &mapping::ASCII,
        "iso_8859_1" => &mapping::ISO_8859_1,
        "iso_8859_2" => &mapping::ISO_8859_2,
        "iso_8859_3" => &mapping::ISO_8859_3,
        "iso_8859_4" => &mapping::ISO_8859_4,
        "iso_8859_5" => &mapping::ISO_8859_5,
        "iso_8859_7" => &mapping::ISO_8859_7,
        "iso_8859_9" => &mapping::ISO_8859_9,
        "iso_8859_10" => &mapping::ISO_8859_10,
        "iso_8859_13" => &mapping::ISO_8859_13,
        "iso_8859_14" => &mapping::ISO_8859_14,
        "iso_8859_15" => &mapping::ISO_8859_15,
        "iso_8859_16" => &mapping::ISO_8859_16,
        "jis_x0201" => &mapping::JIS_X0201,
        _ => panic!("subset {subset}"),
    }
}

const REPLACEMENT: usize = '?' as usize - ' ' as usize;
const UNMAPPED: [char; 9] = ['\u{0}', '\u{7}', '\u{1f}', '\u{80}', '\u{9f}', '\u{fffd}', '\u{ffff}', '\u{1F600}', '\u{10FFFF}'];

// ---- A. mapping tables ------------------------------------------------------------------------

#[derive(Clone, Debug, PartialEq, Eq, Hash, Serialize, Deserialize)]
struct MapCase {
    font: String,
    /// scan every scalar value of the BMP (and 64 beyond) instead of only the mapped + listed unmapped characters
    full_scan: bool,
}

fn check_mapping(c: &MapCase, obs: &mut Obs) {
    let font = font_by_name(&c.font).unwrap();
    let subset = c.font.split("::").next().unwrap();
    let table: Vec<char> = named_mapping(subset).chars().collect();
    obs.mark_nontrivial();
    obs.class(if c.full_scan { "mapping-full-bmp-scan" } else { "mapping-per-font" });
    // distinct characters, hence distinct indices
    let mut sorted = table.clone();
    sorted.sort();
    sorted.dedup();
    if sorted.len() != table.len() {
        obs.fail("mapped-characters-have-their-own-index", format!("{subset}: {} characters, {} distinct", table.len(), sorted.len()));
    }
    let expected = |ch: char| table.iter().position(|x| *x == ch).unwrap_or(REPLACEMENT);
    let mut idx_seen = std::collections::BTreeMap::new();
    let mut probe = |ch: char, obs: &mut Obs| {
        let got = font.glyph_mapping.index(ch);
        let want = expected(ch);
        if got != want {
            obs.fail("font-mapping==named-mapping-table", format!("{}: index({:?}) = {got}, position in the mapping table {want}", c.font, ch));
        }
        if named_mapping(subset).contains(ch) != table.contains(&ch) {
            obs.fail("contains==chars", format!("{subset}: contains({:?}) disagrees with chars()", ch));
        }
        if table.contains(&ch) {
            if let Some(prev) = idx_seen.insert(got, ch) {
                if prev != ch {
                    obs.fail("mapped-characters-have-their-own-index", format!("{}: {:?} and {:?} share index {got}", c.font, prev, ch));
                }
            }
        }
    };
    if c.full_scan {
        let mut n = 0u64;
        for u in (0u32..=0xFFFF).chain((0..64).map(|i| 0x10000 + i * 0x4321)) {
            if let Some(ch) = char::from_u32(u) {
                probe(ch, obs);
                n += 1;
            }
        }
        obs.count("scalar_values_scanned", n);
    } else {
        for ch in table.iter().copied().chain(UNMAPPED) {
            probe(ch, obs);
        }
    }
    // every cell (all mapped indices + the replacement) lies completely inside the atlas
    let (cw, chh) = (font.character_size.width, font.character_size.height);
    let isz = font.image.size();
    if cw == 0 || isz.width < cw {
        obs.fail("cell-inside-font-image", format!("{}: character width {cw}, atlas {:?}", c.font, isz));
        return;
    }
    let gpr = isz.width / cw;
    for i in 0..table.len().max(REPLACEMENT + 1) as u32 {
        let (x, y) = ((i % gpr) * cw, (i / gpr) * chh);
        if x + cw > isz.width || y + chh > isz.height {
            obs.fail("cell-inside-font-image", format!("{}: cell of index {i} at ({x},{y}) size {cw}x{chh} leaves the {}x{} atlas", c.font, isz.width, isz.height));
            break;
        }
    }
    obs.outcome(&(c.font.as_str(), table.len(), gpr));
    // MonoTextStyle::new is a second entry point to the builder
    let a = embedded_graphics::mono_font::MonoTextStyle::new(font, C::TEXT);
    if a != char_style::<C>(font, true, false, 0, 0) || a != char_style_font_last::<C>(font, true, false, 0, 0) {
        obs.fail("style-constructors-agree", format!("{}: MonoTextStyle::new differs from the builder", c.font));
    }
}

// ---- B. rendering with built-in fonts ---------------------------------------------------------

#[derive(Clone, Debug, PartialEq, Eq, Hash, Serialize, Deserialize)]
struct DrawCase {
    font: String,
    /// code point of the character under test
    ch: u32,
    /// index into deco16()
    deco: u8,
    /// false: the string is the character alone; true: "A<ch>g"
    three: bool,
}

/// expected pixel map of one line of text at `pos` (Baseline::Top), glyph cells then decorations;
/// `deco_w` = width the decorations span
#[allow(clippy::too_many_arguments)]
fn expected_line(font: &MonoFont, s: &str, pos: (i32, i32), text: bool, bg: bool, ul: Option<C>, st: Option<C>, deco_w: i32) -> Map<C> {
    let (cw, chh, sp) = (font.character_size.width as i32, font.character_size.height as i32, font.character_spacing as i32);
    let gpr = (font.image.size().width / font.character_size.width.max(1)).max(1);
    let mut m = Map::new();
    let n = s.chars().count() as i32;
    for (i, ch) in s.chars().enumerate() {
        let i = i as i32;
        let idx = font.glyph_mapping.index(ch) as u32;
        let cell = Point::new(((idx % gpr) as i32) * cw, ((idx / gpr) as i32) * chh);
        let x0 = pos.0 + i * (cw + sp);
        for y in 0..chh {
            for x in 0..cw {
                let on = font.image.pixel(cell + Point::new(x, y)) == Some(BinaryColor::On);
                if on {
                    if text {
                        m.insert((x0 + x, pos.1 + y), C::TEXT);
                    }
                } else if bg {
                    m.insert((x0 + x, pos.1 + y), C::BG);
                }
            }
        }
        if bg && i < n - 1 {
            for y in 0..chh {
                for x in 0..sp {
                    m.insert((x0 + cw + x, pos.1 + y), C::BG);
                }
            }
        }
    }
    if let Some(c) = st {
        for y in 0..font.strikethrough.height as i32 {
            for x in 0..deco_w {
                m.insert((pos.0 + x, pos.1 + font.strikethrough.offset as i32 + y), c);
            }
        }
    }
    if let Some(c) = ul {
        for y in 0..font.underline.height as i32 {
            for x in 0..deco_w {
                m.insert((pos.0 + x, pos.1 + font.underline.offset as i32 + y), c);
            }
        }
    }
    m
}

fn deco_color(kind: u8, text: bool, custom: C) -> Option<C> {
    match kind {
        1 => {
            if text {
                Some(C::TEXT)
            } else {
                None
            }
        }
        2 => Some(custom),
        _ => None,
    }
}

fn draw_and_compare(font: &MonoFont, s: &str, text: bool, bg: bool, ul: u8, st: u8, obs: &mut Obs) {
    draw_and_compare_x(font, s, text, bg, ul, st, false, obs)
}

/// `same_bg`: the background colour is the text colour (only meaningful with text and bg set)
#[allow(clippy::too_many_arguments)]
fn draw_and_compare_x(font: &MonoFont, s: &str, text: bool, bg: bool, ul: u8, st: u8, same_bg: bool, obs: &mut Obs) {
    let pos = (-3, 2);
    let style = char_style::<C>(font, text, bg, ul, st);
    // the style must not depend on the order in which the builder was configured
    let other = char_style_font_last::<C>(font, text, bg, ul, st);
    if other != style {
        obs.fail("style-independent-of-builder-order", format!("font set first: underline {:?} strikethrough {:?}; font set last: underline {:?} strikethrough {:?}", style.underline_color, style.strikethrough_color, other.underline_color, other.strikethrough_color));
    }
    // nor on whether it was derived from another style
    let derived = char_style_derived::<C>(font, text, bg, ul, st);
    let rebuilt = char_style_rebuilt::<C>(font, text, bg, ul, st);
    if derived != style || rebuilt != style {
        obs.fail("style-independent-of-builder-order", format!("configured from scratch {:?}; derived from a loaded style and reset {:?}; MonoTextStyleBuilder::from(&style).build() {:?}", (style.text_color, style.background_color, style.underline_color, style.strikethrough_color), (derived.text_color, derived.background_color, derived.underline_color, derived.strikethrough_color), (rebuilt.text_color, rebuilt.background_color, rebuilt.underline_color, rebuilt.strikethrough_color)));
    }
    let mut other = other;
    if same_bg {
        other.background_color = Some(C::TEXT);
        obs.class("background-colour-equals-text-colour");
    }
    let t = Text::with_baseline(s, Point::new(pos.0, pos.1), other, Baseline::Top);
    let mut d = RecD::<C>::new();
    t.draw(&mut d).unwrap();
    let mut nn = RecN::<C>::new();
    t.draw(&mut nn).unwrap();
    let (cw, sp, chh) = (font.character_size.width as i32, font.character_spacing as i32, font.character_size.height as i32);
    let ulc = deco_color(ul, text, C::UNDER);
    let stc = deco_color(st, text, C::STRIKE);
    // lines: split on \n, the \r of a \r\n line ending belongs to the line break; every other character of a line
    // (also a \r at its start or in its middle) occupies a cell; lines are drawn in order one character height apart
    let (mut exp_tw, mut exp_adv) = (Map::new(), Map::new());
    let nlines = s.split('\n').count();
    for (li, line) in s.split('\n').enumerate() {
        let line = if li + 1 < nlines { line.strip_suffix('\r').unwrap_or(line) } else { line };
        let n = line.chars().count() as i32;
        let text_w = if n == 0 { 0 } else { n * (cw + sp) - sp };
        let adv_w = n * (cw + sp);
        let lp = (pos.0, pos.1 + li as i32 * chh);
        exp_tw.extend(expected_line(font, line, lp, text, bg, ulc, stc, text_w));
        exp_adv.extend(expected_line(font, line, lp, text, bg, ulc, stc, adv_w));
    }
    if same_bg {
        for m in [&mut exp_tw, &mut exp_adv] {
            for v in m.values_mut() {
                if *v == C::BG {
                    *v = C::TEXT;
                }
            }
        }
    }
    obs.outcome(&d.map);
    obs.nontrivial_if(!exp_tw.is_empty());
    // documented on MonoTextStyle::is_transparent: a transparent style draws no pixels
    if ((text || bg || ul == 2 || st == 2) && style.is_transparent()) || (style.is_transparent() && !d.map.is_empty()) {
        obs.fail("is_transparent-means-nothing-is-drawn", format!("is_transparent() = {}, {} pixels drawn", style.is_transparent(), d.map.len()));
    }
    for (name, m) in [("draw_iter-only target", &d.map), ("native target", &nn.map)] {
        if *m != exp_tw && *m != exp_adv {
            obs.fail("glyph-cell-colours-and-decorations", format!("{name}: {}", map_diff(m, &exp_tw)));
        }
    }
    // targets whose bounding box is a small window: the first cell starts exactly on its last column, on its last
    // row, or the window cuts through the first cell; inside the window the cells are as on the unbounded target
    {
        use embedded_graphics::primitives::Rectangle;
        let p0 = Point::new(pos.0, pos.1);
        let wins = [
            Rectangle::new(p0 - Point::new(2, 1), Size::new(3, chh as u32 + 2)),
            Rectangle::new(p0 - Point::new(1, 2), Size::new(cw as u32 + 2, 3)),
            Rectangle::new(p0 + Point::new(cw / 2, chh / 2), Size::new(cw as u32 + 1, chh as u32 + 1)),
        ];
        // the same text positioned by its bottom row (Baseline::Bottom at y + height - 1 paints the same cells)
        let tb = Text::with_baseline(s, Point::new(pos.0, pos.1 + chh - 1), other, Baseline::Bottom);
        let more = [
            // the window ends one row above the text's bottom row / one column before the first cell's last column
            Rectangle::new(p0 - Point::new(1, 1), Size::new(cw as u32 + 3, chh as u32)),
            Rectangle::new(p0 - Point::new(1, 1), Size::new(cw as u32, chh as u32 + 3)),
        ];
        for win in wins.into_iter().chain(more) {
            let inside = |m: &Map<C>| -> Map<C> { m.iter().filter(|(k, _)| win.contains(Point::new(k.0, k.1))).map(|(k, v)| (*k, *v)).collect() };
            let mut wd = RecD::<C>::with_box(win);
            t.draw(&mut wd).unwrap();
            let mut wb = RecD::<C>::with_box(win);
            tb.draw(&mut wb).unwrap();
            // behind the library's clipped() adapter on an unbounded native parent
            let mut pc = RecN::<C>::new();
            {
                use embedded_graphics::draw_target::DrawTargetExt;
                t.draw(&mut pc.clipped(&win)).unwrap();
            }
            obs.class_if(!inside(&wd.map).is_empty(), "glyphs-through-a-target-window");
            for (name, got) in [("window", inside(&wd.map)), ("window, Baseline::Bottom", inside(&wb.map)), ("clipped()", pc.map.clone())] {
                if got != inside(&exp_tw) && got != inside(&exp_adv) {
                    obs.fail("glyph-cells-inside-a-target-window", format!("{name} {:?}: {}", rt(&win), map_diff(&got, &inside(&exp_tw))));
                }
            }
        }
    }
}

fn check_draw(c: &DrawCase, obs: &mut Obs) {
    let font = font_by_name(&c.font).unwrap();
    let ch = char::from_u32(c.ch).unwrap();
    let (text, bg, ul, st) = deco16()[c.deco as usize];
    let s = if c.three { format!("A{ch}g") } else { ch.to_string() };
    let subset = c.font.split("::").next().unwrap();
    let mapped = named_mapping(subset).contains(ch);
    obs.class(if mapped { "mapped-character" } else { "unmapped-character" });
    obs.class_if(!mapped && c.ch > 0xFFFF, "non-bmp-character");
    obs.class_if(!mapped && c.ch < 0x20, "control-character");
    obs.class_if(ul != 0 || st != 0, "decorated");
    obs.class_if(!text && bg, "background-only");
    obs.class_if(c.three, "three-characters");
    draw_and_compare(font, &s, text, bg, ul, st, obs);
    if c.three {
        // the same character in a second line that starts with a carriage return (an ordinary unmapped character there)
        obs.class("line-starting-with-carriage-return");
        draw_and_compare(font, &format!("{ch}\r\n\r{ch}\rA"), text, bg, ul, st, obs);
    }
    // unmapped characters render the replacement glyph
    if !mapped && font.glyph_mapping.index(ch) != REPLACEMENT {
        obs.fail("unmapped-renders-replacement-glyph", format!("{}: index({:?}) = {}", c.font, ch, font.glyph_mapping.index(ch)));
    }
}

// ---- C. custom fonts ------------------------------------------------------------------------

#[derive(Clone, Debug, PartialEq, Eq, Hash, Serialize, Deserialize)]
struct CustomCase {
    cw: u32,
    ch: u32,
    spacing: u32,
    glyphs_per_row: u32,
    /// extra unused atlas columns (< cw)
    extra: u32,
    /// 0: StrGlyphMapping "\0ad" + "xyz" ranges with replacement index 1; 1: closure mapping
    mapping: u8,
    deco: u8,
    text: String,
}

fn check_custom(c: &CustomCase, obs: &mut Obs) {
    let nglyphs = 8u32;
    let rows = (nglyphs + c.glyphs_per_row - 1) / c.glyphs_per_row;
    let iw = c.cw * c.glyphs_per_row + c.extra;
    let ih = c.ch * rows;
    let bpr = ((iw + 7) / 8) as usize;
    let mut data = vec![0u8; bpr * ih as usize];
    for y in 0..ih {
        for x in 0..iw {
            let on = (x * 7 + y * 13 + (x / c.cw.max(1)) * 3 + (y / c.ch.max(1)) * 5) % 3 != 0;
            if on {
                data[y as usize * bpr + (x / 8) as usize] |= 0x80 >> (x % 8);
            }
        }
    }
    let image = ImageRaw::<BinaryColor>::new(&data, Size::new(iw, ih)).unwrap();
    let strmap = StrGlyphMapping::new("\0adx\0yz", 1);
    let closure = |ch: char| -> usize {
        match ch {
            'a'..='d' => ch as usize - 'a' as usize,
            'x' => 4,
            'y' | 'z' => 5 + ch as usize - 'y' as usize,
            _ => 1,
        }
    };
    // independent statement of the custom mapping
    let expect_idx = |ch: char| -> usize { "abcdxyz".chars().position(|x| x == ch).unwrap_or(1) };
    let gm: &dyn GlyphMapping = if c.mapping == 0 { &strmap } else { &closure };
    for ch in "abcdxyzQ\u{0}\u{1F600}".chars() {
        if gm.index(ch) != expect_idx(ch) {
            obs.fail("custom-mapping-index", format!("index({:?}) = {}, expected {}", ch, gm.index(ch), expect_idx(ch)));
        }
    }
    let font = MonoFont {
        image,
        character_size: Size::new(c.cw, c.ch),
        character_spacing: c.spacing,
        baseline: c.ch.saturating_sub(1),
        // decoration geometry varies with the case: heights 0 (a font that switches the decoration off), 1, 2, 3 and
        // offsets inside, below and at the top of the cell
        strikethrough: DecorationDimensions::new(c.ch / 2, [1, 0, 3][(c.spacing % 3) as usize]),
        underline: DecorationDimensions::new(if c.spacing == 1 { 0 } else { c.ch + 1 }, [2, 3, 0][(c.spacing % 3) as usize]),
        glyph_mapping: gm,
    };
    obs.class_if(font.strikethrough.height == 0 || font.underline.height == 0, "decoration-of-zero-height");
    let (text, bg, ul, st) = deco16()[c.deco as usize];
    obs.class("custom-font");
    obs.class_if(c.spacing > 0, "character-spacing");
    obs.class_if(c.spacing > 0 && bg, "spacing-with-background");
    obs.class_if(c.glyphs_per_row == 1, "one-glyph-per-row");
    obs.class_if(c.mapping == 1, "closure-mapping");
    draw_and_compare(&font, &c.text, text, bg, ul, st, obs);
    // the glyph pixels / colours reach the target whichever way it consumes the iterators it is handed
    if c.text.len() <= 8 {
        let t = Text::with_baseline(&c.text, Point::new(-3, 2), char_style::<C>(&font, text, bg, ul, st), Baseline::Top);
        egverif::proto::consumption_protocol("text in a synthetic font", &t, obs);
    }
    if text && bg {
        draw_and_compare_x(&font, &c.text, text, bg, ul, st, true, obs);
    }
}

// ---- domains -----------------------------------------------------------------------------------

fn draw_cases(tier: Tier, subsets: &[&str]) -> Vec<DrawCase> {
    let mut v = vec![];
    for subset in subsets {
        let table: Vec<char> = named_mapping(subset).chars().collect();
        for fi in fonts_of(subset) {
            let font = font_name(fi);
            for ch in table.iter().copied().chain(UNMAPPED) {
                let mapped = table.contains(&ch);
                // every (font, character) with both colours; all 16 colour/decoration sets for a
                // rotating selection in quick and for everything in thorough
                for deco in 0..16u8 {
                    let all = true;
                    let _ = (mapped, tier);
                    if deco == 2 || all {
                        v.push(DrawCase { font: font.clone(), ch: ch as u32, deco, three: false });
                    }
                }
                {
                    v.push(DrawCase { font: font.clone(), ch: ch as u32, deco: 3, three: true });
                }
            }
        }
    }
    v
}

fn custom_cases() -> Vec<CustomCase> {
    let mut v = vec![];
    for (cw, ch) in [(3u32, 4u32), (5, 2), (8, 8), (1, 1)] {
        for gpr in [1u32, 4, 16] {
            for spacing in [0u32, 1, 3] {
                for extra in [0, cw - 1] {
                    for mapping in [0u8, 1] {
                        for deco in 0..16u8 {
                            for text in ["a", "abQ", "dzyxcba", "", "\u{1F600}b", "ab\r\n\rc\n\n\rd\ra"] {
                                v.push(CustomCase { cw, ch, spacing, glyphs_per_row: gpr, extra, mapping, deco, text: text.into() });
                            }
                        }
                    }
                }
            }
        }
    }
    // a line of 300 characters (cell offsets beyond 8-bit counters; atlas rows revisited many times)
    let long: String = (0..300).map(|i| ['a', 'b', 'c', 'd', 'x', 'y', 'z', 'Q'][(i * 5 + i / 7) % 8]).collect();
    for (cw, ch) in [(3u32, 4u32), (8, 8)] {
        for gpr in [1u32, 4, 16] {
            for spacing in [0u32, 3] {
                for mapping in [0u8, 1] {
                    for deco in [3u8, 12] {
                        v.push(CustomCase { cw, ch, spacing, glyphs_per_row: gpr, extra: 0, mapping, deco, text: long.clone() });
                    }
                }
            }
        }
    }
    v
}

// ---- D. custom StrGlyphMapping strings -------------------------------------------------------------

#[derive(Clone, Debug, PartialEq, Eq, Hash, Serialize, Deserialize)]
struct StrMapCase {
    /// the mapping string: characters, and ranges written as \0 first last
    data: String,
    replacement: usize,
}

/// the characters a StrGlyphMapping string designates, in index order (the documented encoding)
fn expand_mapping(data: &str) -> Vec<char> {
    let cs: Vec<char> = data.chars().collect();
    let mut out = vec![];
    let mut i = 0;
    while i < cs.len() {
        if cs[i] == '\0' && i + 2 < cs.len() {
            let (a, b) = (cs[i + 1] as u32, cs[i + 2] as u32);
            for u in a..=b {
                if let Some(c) = char::from_u32(u) {
                    out.push(c);
                }
            }
            i += 3;
        } else {
            out.push(cs[i]);
            i += 1;
        }
    }
    out
}

fn check_strmap(c: &StrMapCase, obs: &mut Obs) {
    let leaked: &'static str = Box::leak(c.data.clone().into_boxed_str());
    let m = StrGlyphMapping::new(leaked, c.replacement);
    let table = expand_mapping(&c.data);
    obs.mark_nontrivial();
    obs.class("custom-mapping-string");
    obs.outcome(&table);
    if m.chars().collect::<Vec<char>>() != table {
        obs.fail("custom-mapping-index", format!("chars() yields {} characters, the string designates {}", m.chars().count(), table.len()));
    }
    // every scalar value up to U+0180, the mapped characters themselves, and a few beyond
    let probes = (0u32..0x180).filter_map(char::from_u32).chain(table.iter().copied()).chain(UNMAPPED);
    for ch in probes {
        let want = table.iter().position(|x| *x == ch).unwrap_or(c.replacement);
        let got = m.index(ch);
        if got != want {
            obs.fail("custom-mapping-index", format!("mapping {:?} (replacement {}): index({:?}) = {got}, expected {want}", c.data, c.replacement, ch));
            return;
        }
    }
}

fn strmap_cases() -> Vec<StrMapCase> {
    let mut v = vec![];
    for data in ["\0 Z\0az", "\0adx\0yz", " ", "abc", "\0 ~", "\0\u{20}\u{7f}", "\0 /x", "z\0 9", "\0!~", "", "\0 \u{20}", "\0 Z", "\0 ~\0\u{a0}\u{ff}", "0123456789", "\0AZ\0 @", "?\0 >", "x\0bay", "\0zab"] {
        for replacement in [0usize, 1, 40] {
            v.push(StrMapCase { data: data.to_string(), replacement });
        }
    }
    v
}

fn run_part(run: &mut Run) {
    let tier = run.tier;
    match run.part.as_str() {
        "mapping" => {
            run.sweep_vec("mapping-tables", "all 292 built-in fonts: index() of every mapped and 9 unmapped characters against the named mapping table, cells inside the atlas; full scan of every BMP scalar value plus 64 beyond for every font (a font may name another mapping than the one of its subset)", || {
                let mut v = vec![];
                for i in 0..FONTS.len() {
                    v.push(MapCase { font: font_name(i), full_scan: false });
                }
                for s in SUBSETS {
                    let f = fonts_of(s);
                    // (the full scan of every font costs a few seconds: a font may name another mapping than its subset's)
                    if true || tier.is_thorough() {
                        for i in f {
                            v.push(MapCase { font: font_name(i), full_scan: true });
                        }
                    } else {
                        v.push(MapCase { font: font_name(f[0]), full_scan: true });
                        v.push(MapCase { font: font_name(f[f.len() - 1]), full_scan: true });
                    }
                }
                v
            }, check_mapping);
            run.sweep_vec("custom-mapping-strings", "18 StrGlyphMapping strings (single characters, ranges starting at or after the space, ranges ending before or after the tilde, several ranges, reversed (empty) ranges, empty) x 3 replacement indices: index() of every scalar value below U+0180 and of every mapped character against the expanded string", strmap_cases, check_strmap);
            run.sweep_vec("custom-fonts", "synthetic atlases: character sizes {3x4,5x2,8x8,1x1} x glyphs per row {1,4,16} x spacing {0,1,3} x extra atlas columns {0,w-1} x StrGlyphMapping with ranges/closure mapping with replacement index x 16 colour/decoration sets x 6 strings (one with three lines, CR LF and lines starting with a carriage return), plus a 300-character line for a subset", custom_cases, check_custom);
        }
        "draw-a" => run.sweep_vec("glyphs", "every (built-in font, mapped character) plus 9 unmapped characters, single character and 3-character strings, colour/decoration sets (all 16 in thorough, all for unmapped and a rotating subset for mapped in quick)", || draw_cases(tier, &SUBSETS[..7]), check_draw),
        "draw-b" => run.sweep_vec("glyphs", "every (built-in font, mapped character) plus 9 unmapped characters, single character and 3-character strings, colour/decoration sets", || draw_cases(tier, &SUBSETS[7..]), check_draw),
        p => panic!("unknown part {p}"),
    }
}

fn main() {
    egverif::fw::main(Prop {
        id: "C14",
        level: "exploration",
        rule: "complete over the built-in fonts: every (font, mapped character) pair of all 292 fonts plus listed unmapped characters is drawn and compared cell by cell with font.image.pixel() of the cell the mapping designates (on -> text colour, off -> background or untouched, nothing else besides the decorations at the font's offsets spanning the text width); every font's index() is compared with the named mapping table (BMP scan); synthetic fonts cover spacing, atlas row lengths and custom mappings; non-trivial = something is expected to be painted",
        assumptions: &["mapping tables are checked for internal consistency and against the atlas geometry, not against the ISO 8859 standards", "with character spacing the decorations may span the text width or the advance width (an existing test pins the latter for transparent text)"],
        parts: |_| vec![PartSpec::new("mapping", "verif"), PartSpec::new("draw-a", "verif"), PartSpec::new("draw-b", "verif")],
        run_part,
        required_classes: |_| vec!["decoration-of-zero-height", "background-colour-equals-text-colour", "mapping-per-font", "mapping-full-bmp-scan", "mapped-character", "unmapped-character", "non-bmp-character", "control-character", "decorated", "background-only", "three-characters", "glyphs-through-a-target-window", "line-starting-with-carriage-return", "custom-font", "character-spacing", "spacing-with-background", "one-glyph-per-row", "closure-mapping"],
        crash_is_verdict: false,
    })
}
