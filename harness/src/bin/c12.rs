//! C12 Colours survive the trip through their raw representation (complete enumeration)
use egverif::colors::*;
use egverif::for_all_colors;
use egverif::fw::*;
use embedded_graphics::pixelcolor::*;
use serde::{Deserialize, Serialize};

#[derive(Clone, Debug, PartialEq, Eq, Hash, Serialize, Deserialize)]
struct Case {
    color: String,
    /// "values": every colour value; "new": every constructor input 0..=255 per channel; "raw": every raw storage value
    what: String,
    /// chunk start and length (values / storage values) or the first channel input (new)
    start: u64,
    len: u64,
}

fn num_be(b: &[u8]) -> u32 {
    b.iter().fold(0u32, |a, x| (a << 8) | *x as u32)
}
fn num_le(b: &[u8]) -> u32 {
    b.iter().rev().fold(0u32, |a, x| (a << 8) | *x as u32)
}

fn check_values<C: Col>(c: &Case, obs: &mut Obs) {
    let k = C::KIND;
    let bits = C::raw_bits();
    obs.mark_nontrivial();
    obs.count("colour_values", c.len);
    let mut digest = 0u64;
    for i in c.start..c.start + c.len {
        let ch = k.nth(i);
        let col = C::make(ch);
        let raw = col.raw_u32();
        digest = digest.wrapping_mul(0x100000001B3).wrapping_add(raw as u64);
        if col.chans() != ch {
            obs.fail("accessors-return-channels", format!("{}::new{:?} reads back {:?}", C::NAME, ch, col.chans()));
        }
        if bits < 32 && raw >> bits != 0 {
            obs.fail("raw-fits-bits-per-pixel", format!("{:?} -> raw {raw:#x} needs more than {bits} bits", col));
        }
        if raw != k.layout(ch) {
            obs.fail("documented-storage-layout", format!("{:?} -> raw {raw:#x}, documented layout {:#x}", col, k.layout(ch)));
        }
        if C::from_raw_u32(raw) != col {
            obs.fail("colour->raw->colour-identity", format!("{:?} -> raw {raw:#x} -> {:?}", col, C::from_raw_u32(raw)));
        }
        if col.storage_u32() != raw {
            obs.fail("into_storage-same-value", format!("{:?}: into_storage {:#x}, raw {raw:#x}", col, col.storage_u32()));
        }
        let (be, le, ne) = (col.be_bytes(), col.le_bytes(), col.ne_bytes());
        let nbytes = ((bits + 7) / 8) as usize;
        if be.len() != nbytes || le.len() != nbytes || num_be(&be) != raw || num_le(&le) != raw || (ne != le && ne != be) || (cfg!(target_endian = "little") && ne != le) {
            obs.fail("to_bytes-same-value", format!("{:?}: raw {raw:#x}, be {:02x?}, le {:02x?}, ne {:02x?}", col, be, le, ne));
        }
        if obs.violations.len() >= 6 {
            return;
        }
    }
    obs.outcome(&digest);
}

fn check_new<C: Col>(c: &Case, obs: &mut Obs) {
    let k = C::KIND;
    let mx = k.maxima();
    obs.mark_nontrivial();
    let a0 = c.start as u8;
    obs.outcome(&(C::NAME, a0));
    if k.is_rgb() {
        obs.count("constructor_inputs", 65536);
        for g in 0..=255u8 {
            for b in 0..=255u8 {
                let col = C::make([a0, g, b]);
                let want = [a0 & mx[0] as u8, g & mx[1] as u8, b & mx[2] as u8];
                if col.chans() != want {
                    obs.fail("new-keeps-channels-modulo-width", format!("{}::new({a0},{g},{b}) has channels {:?}, expected {:?}", C::NAME, col.chans(), want));
                    return;
                }
                if col != C::make(want) {
                    obs.fail("new-keeps-channels-modulo-width", format!("{}::new({a0},{g},{b}) != new{:?}", C::NAME, want));
                    return;
                }
            }
        }
    } else {
        obs.count("constructor_inputs", 1);
        let col = C::make([a0, 0, 0]);
        let want = if k == Kind::Binary { (a0 != 0) as u8 } else { a0 & mx[0] as u8 };
        if col.chans()[0] != want {
            obs.fail("new-keeps-channels-modulo-width", format!("{}::new({a0}) has luma {}, expected {want}", C::NAME, col.chans()[0]));
        }
    }
}

fn check_raw<C: Col>(c: &Case, obs: &mut Obs) {
    let k = C::KIND;
    let cm = k.channel_mask();
    obs.mark_nontrivial();
    obs.count("raw_storage_values", c.len);
    let mut digest = 0u64;
    for v in c.start..c.start + c.len {
        let v = v as u32;
        let col = C::from_raw_u32(v);
        let raw2 = col.raw_u32();
        digest = digest.wrapping_mul(0x100000001B3).wrapping_add(raw2 as u64);
        if raw2 != v & cm {
            obs.fail("raw->colour->raw-only-clears-unused-bits", format!("{}: storage {v:#x} -> {:?} -> raw {raw2:#x}, expected {:#x}", C::NAME, col, v & cm));
        }
        let col2 = C::from_raw_u32(raw2);
        if col2 != col || col2.raw_u32() != raw2 {
            obs.fail("raw->colour->raw-idempotent", format!("{}: {v:#x} -> {raw2:#x} -> {:#x}", C::NAME, col2.raw_u32()));
        }
        if col.chans() != k.nth((v & cm) as u64) && k.is_rgb() {
            // nth() decomposes an RGB-ordered index; for BGR compare through layout instead
            if k.layout(col.chans()) != v & cm {
                obs.fail("documented-storage-layout", format!("{}: raw {v:#x} decodes to channels {:?}", C::NAME, col.chans()));
            }
        }
        if obs.violations.len() >= 6 {
            return;
        }
    }
    obs.outcome(&digest);
}

fn check(c: &Case, obs: &mut Obs) {
    obs.class(match c.what.as_str() {
        "values" => "every-colour-value",
        "new" => "every-constructor-input",
        _ => "every-raw-storage-value",
    });
    macro_rules! arm {
        ($t:ident) => {
            if c.color == <$t as Col>::NAME {
                obs.class(<$t as Col>::NAME);
                match c.what.as_str() {
                    "values" => check_values::<$t>(c, obs),
                    "new" => check_new::<$t>(c, obs),
                    _ => check_raw::<$t>(c, obs),
                }
                return;
            }
        };
    }
    for_all_colors!(arm);
    panic!("unknown colour {}", c.color);
}

fn cases(tier: Tier) -> Vec<Case> {
    let mut v = vec![];
    macro_rules! gen {
        ($t:ident) => {{
            let k = <$t as Col>::KIND;
            let name = <$t as Col>::NAME.to_string();
            let n = k.count();
            let chunk = 1u64 << 16;
            let mut s = 0;
            while s < n {
                v.push(Case { color: name.clone(), what: "values".into(), start: s, len: chunk.min(n - s) });
                s += chunk;
            }
            for a0 in 0..256u64 {
                v.push(Case { color: name.clone(), what: "new".into(), start: a0, len: 1 });
            }
            let sb = <$t as Col>::storage_bits();
            if sb <= 16 {
                v.push(Case { color: name.clone(), what: "raw".into(), start: 0, len: 1 << sb });
            } else {
                // 32-bit storage of the 24-bit raw types
                let chunk = 1u64 << 20;
                let highs: Vec<u64> = if tier.is_thorough() { (0..256).collect() } else { vec![0x00, 0xFF, 0xA5, 0x5A, 0x01, 0x80] };
                for h in highs {
                    let mut s = 0u64;
                    while s < (1 << 24) {
                        v.push(Case { color: name.clone(), what: "raw".into(), start: (h << 24) | s, len: chunk });
                        s += chunk;
                    }
                }
            }
        }};
    }
    for_all_colors!(gen);
    v
}

fn run_part(run: &mut Run) {
    let tier = run.tier;
    run.sweep_vec(
        "colour-raw",
        "14 colour types: every colour value (in chunks of 65536), every constructor input 0..=255 per channel, every value of the raw storage type (24-bit types: all 2^24 low values x high byte {00,FF,A5} quick / all 2^32 thorough)",
        || cases(tier),
        check,
    );
}

fn main() {
    egverif::fw::main(Prop {
        id: "C12",
        level: "exploration",
        rule: "complete enumeration: a case is one chunk of one colour type's value space; the counters colour_values / constructor_inputs / raw_storage_values give the number of individual values checked; per value: colour->raw->colour identity, raw fits BITS_PER_PIXEL, raw equals the documented layout computed from an independent channel-width table, accessors return the channels, new() keeps channels modulo width, raw->colour->raw only clears unused bits and is idempotent, into_storage/to_be_bytes/to_le_bytes/to_ne_bytes describe the same number",
        assumptions: &["channel widths and RGB/BGR order come from a table in the harness (Rgb332 3/3/2, Rgb444, Rgb555, Rgb565 5/6/5, Rgb666, Rgb888), not from the library's constants"],
        parts: |_| vec![PartSpec::new("all", "verif")],
        run_part,
        required_classes: |_| vec!["every-colour-value", "every-constructor-input", "every-raw-storage-value", "BinaryColor", "Gray2", "Gray4", "Gray8", "Rgb332", "Rgb444", "Rgb555", "Bgr555", "Rgb565", "Bgr565", "Rgb666", "Bgr666", "Rgb888", "Bgr888"],
        crash_is_verdict: false,
    })
}
