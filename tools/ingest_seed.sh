#!/bin/bash
# tools/ingest_seed.sh <ID> <A|B> [other check IDs...]
# Re-verifies a sub-agent's seeded change (tools/verify_seed.sh), runs the property's quick check (and any
# extra checks) against it with tools/try_patch.sh, and stores it under seeded/<ID>-<V>/ when confirmed.
set -u
ID="$1"; V="$2"; shift 2
PROP="${ID%%r*}"
cd "$(dirname "$0")/.."
SRC=/tmp/seeded-out/$ID
# a verification done beforehand (tools/verify_seed.sh ... > $SRC/$V.verify.txt; echo $? > $SRC/$V.verify.rc) is reused
if [ -f "$SRC/$V.verify.rc" ]; then ver=$(cat "$SRC/$V.verify.txt"); vrc=$(cat "$SRC/$V.verify.rc"); else ver=$(tools/verify_seed.sh "$ID" "$V" 2>&1); vrc=$?; fi
echo "$ver" | tail -6
det=$(tools/try_patch.sh "$SRC/$V.patch.diff" quick "$PROP" "$@" 2>&1)
echo "$det"
if [ $vrc -ne 0 ]; then echo "NOT KEPT (not confirmed)"; exit 1; fi
D=seeded/$ID-$V; mkdir -p "$D"
cp "$SRC/$V.patch.diff" "$D/patch.diff"; cp "$SRC/$V.demo.rs" "$D/demo.rs"; cp "$SRC/$V.notes.md" "$D/notes.md"
VER_TEXT="$ver" DET_TEXT="$det" python3 - "$PROP" "$V" "$D" "$ID" <<'PY'
import json, os, sys, re
ID, V, D, FULL = sys.argv[1:5]
ver = os.environ["VER_TEXT"]
det = os.environ["DET_TEXT"]
files = sorted(set(re.findall(r'^\+\+\+ b/(\S+)', open(D + '/patch.diff').read(), re.M)))
detection = {}
for l in det.splitlines():
    m = re.match(r'(C\d+) exit=(\d+) violations=(\d+)\s*(.*)', l)
    if m:
        detection[m.group(1)] = {"tier": "quick", "exit": int(m.group(2)), "violation_lines": int(m.group(3)), "first_cluster": m.group(4)[:300]}
notes = open(D + '/notes.md').read()
meta = {
    "id": f"{FULL}-{V}",
    "breaks_property": ID,
    "written_by": "fresh sub-agent given only the property text and a scratch worktree",
    "files_changed": files,
    "what_it_needs_to_manifest": "see notes.md (the sub-agent's own description)",
    "verified_by_author": {
        "how": "tools/verify_seed.sh: in a scratch worktree of /repo the change was applied, the repository suite and doc tests run, the demonstration test run with the change and again after reverting it",
        "result": [l.strip() for l in ver.splitlines() if l.startswith('  ')],
    },
    "detection": detection,
    "caught_by_quick_check_of_its_property": detection.get(ID, {}).get("exit") == 1,
}
json.dump(meta, open(D + '/meta.json', 'w'), indent=1)
print("kept as", D, "caught:", meta["caught_by_quick_check_of_its_property"])
PY
