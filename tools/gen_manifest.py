#!/usr/bin/env python3
"""Generates /verif/MANIFEST.json from the table below (kept in one place so it stays valid)."""
import json, os, sys
HERE = os.path.dirname(os.path.dirname(os.path.abspath(__file__)))

ENUM = "bounded exhaustive enumeration of a listed finite input domain, executed on the real code, each case compared with a reference model (small-scope model checking of a sequential library)"
CHECKS = {
  # id: (category, technique, level text, level note, design ref)
  "C01": ("exploration", "bounded exhaustive input enumeration, differential over three rendering paths on reference targets that consume the handed iterators in different legal ways (next / for_each / nth / count / last / skip+step_by)",
          "Every drawable of the listed catalogue (all primitive kinds x sizes up to N x styles S(W) x positions, all vertex triples of small grids, polylines up to 4/5 vertices, images of 7 raw widths x 2 data orders x sub-images, text) is rendered through draw() on a draw_iter-only target inheriting the trait defaults, draw() on a native target and pixels() via draw_iter; the unbounded pixel maps must be equal. Exhaustive up to the listed bounds.",
          "The harness's native target is the reference for the documented meaning of fill_contiguous/fill_solid/clear; bounded catalogue.", "6/C01"),
  "C02": ("exploration", "bounded exhaustive input enumeration, containment of every recorded pixel in bounding_box()",
          "Every drawable of the catalogue plus text over all 292 built-in fonts x decorations x baselines x alignments x line heights is drawn on unbounded recording targets; every pixel must lie in bounding_box(), transparent styles must draw nothing. Exhaustive up to the listed bounds; fonts are covered completely.",
          "Only containment (not tightness) is asserted; Rectangle::contains is trusted (C16).", "6/C02"),
  "C03": ("model_checking", "explicit-state BFS over operation histories; transition function = the real adapters; reference = set-theoretic model; parents that consume the adapters' iterators in every legal way",
          "State = pixel map of the innermost parent. Every (adapter stack up to depth 2/3 over 25 adapters, operation of 44) from 16 initial states, and all histories of length 2/3 over a reduced alphabet, are executed through the real clipped/cropped/translated/color_converted adapters and trait defaults; every transition is compared with the composed set-theoretic model (state, call confinement, reported boxes).",
          "Rectangle::intersection/translate are trusted primitives of the model (C16); bounded alphabet and depth.", "6/C03"),
  "C04": ("fault_enumeration", "exhaustive fault enumeration: for every k the run in which the k-th target call fails",
          "For every drawable x 6 adapter stacks x 2 target flavours the fault-free run gives n calls; every k in 1..=n is made to fail and the run must return exactly Err(Fault(k)), make no further call, and have made the same k-1 calls as the fault-free run.",
          "One fault per execution (a second is unreachable if the property holds); bounded drawable list.", "6/C04"),
  "C05": ("exploration", "bounded exhaustive input enumeration vs. reference (points() sequence == row-major filter of contains())",
          "Every shape of a listed finite domain (all sizes up to N, all equal and a product of unequal corner radii, all non-degenerate vertex triples of small grids, start/sweep angle grids, two positions) is run through the real points()/contains(); the verdict is exhaustive up to those bounds.",
          "Trusts Rectangle::contains/bounding_box arithmetic of the probe (decided separately by C16); contains() is probed on the bounding box grown by 2 plus six far points.", "6/C05"),
  "C06": ("exploration", "bounded exhaustive input enumeration vs. reference (pixel map predicted from fill_area()/stroke_area())",
          "All four closed shapes x all sizes up to N (incl. strokes wider than the shape) x all styles S(W) are drawn through draw() on both reference targets and through pixels(); each map must equal the map predicted from contains() of fill_area()/stroke_area(); exhaustive up to the bounds.",
          "contains() of the returned areas defines the areas (C05 ties it to points()); bounded to listed sizes/widths.", "6/C06"),
  "C07": ("exploration", "bounded exhaustive input enumeration, metamorphic oracle (translate then draw == draw then shift)",
          "Every (drawable, style, offset) of the listed product: pixel map of x.translate(d) equals the shifted map of x; boxes, points() and contains() shift; translate_mut == translate; polylines also with moved vertices; text next position shifts. Exhaustive up to the listed bounds.",
          "Bounded catalogue and offsets; objects straddle the origin so offsets cross both axes.", "6/C07"),
  "C08": ("exploration", "bounded exhaustive enumeration of a boundary-value product under panic capture, a counting allocator and step budgets, in overflow-checked builds of both feature sets",
          "Every case of a display-scale boundary-value product (coordinates +-1024, sizes to 1024, stroke widths to 128, degenerate objects, null font, zero-sized images, adapters, out-of-range indices) is probed: constructor, bounding_box, contains, points, pixels, draw on two counting targets; no panic, no allocation, ends within the budget. Child-process death or a hang is reported as a violation.",
          "Allocation freedom is measured on the explored executions; iterators over boxes above 2^18 pixels are truncated on the draw_iter-only path.", "6/C08"),
  "C09": ("exploration", "bounded exhaustive input enumeration vs. an independent decode of the documented byte layout",
          "7 raw widths x 2 data orders x all sizes up to 5x4 (9x6) x contents x all sub-areas with corners in [-1,w+1]x[-1,h+1] x nested areas x Image::new/with_center, each drawn on three reference targets incl. one that drains the colour iterator; pixel(), ImageRaw::new with every length.",
          "Layout model written from the documentation, independent of the library's bit_position.", "6/C09"),
  "C10": ("model_checking", "explicit-state BFS over write histories on 140 real framebuffer configurations beside a map model",
          "7 depths x 2 data orders x 5 sizes x exact/oversized buffers x zeroed/0xA5 start: all sequences (depth 3/4) of set_pixel/draw_iter/fill_solid/clear/stroked rectangle with inside and outside points; on every state pixel(), tail bytes, documented layout of data() and as_image() are compared with the model; dedup on the byte array.",
          "Padding bits of partially used row bytes are not asserted; bounded alphabet and depth.", "6/C10"),
  "C11": ("model_checking", "bounded exhaustive enumeration of store/load cases vs. a bit-level layout model, and explicit-state search over next()/nth() sequences of the raw iterator; run in overflow-checked and plain release builds",
          "7 raw types x 2 orders x buffer lengths x every index incl. wrap-around indices x values x backgrounds against a bit-level model; every next()/nth(k) sequence to depth 4/5 with items and size_hint compared with the model cursor.",
          "24/32-bit values are a boundary set; bounded buffer lengths.", "6/C11"),
  "C12": ("exploration", "complete enumeration of every colour value, constructor input and raw storage value of the 14 colour types",
          "The value spaces are finite and enumerated completely (24-bit raw storage with all 2^32 values in the thorough tier): identity, bit budget, documented layout from an independent width table, accessors, idempotence, storage/byte serialisations.",
          "Channel widths and order come from a table in the harness.", "6/C12"),
  "C13": ("exploration", "complete enumeration of all 182 conversion pairs x every source value",
          "Every source value of every ordered pair of built-in colour types: nearest scaled value per channel, extremes, widening round trip, monotonicity, binary thresholds, gray->rgb->gray identity.",
          "Luma for RGB->BinaryColor is what the public RGB->Gray8 conversion returns.", "6/C13"),
  "C14": ("exploration", "complete enumeration over built-in fonts: every (font, mapped character) pair, BMP scan of the mappings, synthetic fonts",
          "All 292 fonts x every mapped character + unmapped characters x 16 colour/decoration sets are drawn and compared cell by cell with the atlas cell the mapping designates; every font's index() against the named mapping table (full BMP scan); custom fonts with spacing, different atlas row lengths, custom mappings.",
          "Mapping tables are checked for consistency and against the atlas geometry, not against the ISO standards.", "6/C14"),
  "C15": ("exploration", "bounded exhaustive input enumeration with metamorphic oracles (CR LF vs LF, whole text vs separate lines, chaining) and layout rules",
          "Fonts (22 quick / 292 thorough) x 14 strings x 3 alignments x 4 baselines x 4 line heights x decorations x positions: draw==measure_string, chaining at every split, alignment and baseline of every line box, multi-line == lines separately, CR LF == LF.",
          "Built-in fonts have spacing 0; Middle = centre row rounded down.", "6/C15"),
  "C16": ("exploration", "bounded exhaustive enumeration of rectangles / ordered pairs vs. explicit point sets",
          "All rectangles and all ordered pairs of a small grid (incl. zero sizes) plus a boundary-value product up to +-2^20: intersection, envelope, contains, points, rows/columns, bottom_right, center/with_center, with_corners, anchors, resized*, offset compared with half-open boxes in 64-bit arithmetic.",
          "Random rectangles of the quantifier are replaced by a deterministic boundary product.", "6/C16"),
  "C17": ("exploration", "bounded exhaustive enumeration of lines x stroke widths vs. exact geometric clauses",
          "All lines with end points in [-8,8]^2 ([-12,12]^2) x widths 1..=12 (16) plus boundary-value long lines: thin-line clauses exactly in integers, thick-line clauses with the statement's tolerances.",
          "Random long lines are replaced by a boundary product; f64 with 1e-9 slack in favour of the code.", "6/C17"),
  "C18": ("exploration", "bounded exhaustive enumeration of curved shapes and angle grids vs. exact ideal curves with true-distance bands, in the floating-point and fixed_point builds",
          "Circles to d=64 (128), ellipses to 32x32 (64x64), rounded rectangles with equal and unequal radii, sectors/arcs over diameter x start x sweep grids incl. fractional and special angles: band of half a pixel by Eberly's distance, symmetry, runs, equivalences, confined radii, 1.5 px angular clause.",
          "f64 distances with 1e-6 slack in favour of the code; angle convention of the library.", "6/C18"),
  "C19": ("exploration", "bounded exhaustive enumeration of vertex triples, edge-sharing pairs and polylines vs. exact orientation tests",
          "All vertex triples of a 7x7 (8x8) grid in all six orders plus larger boundary triangles, all edge-sharing pairs of a 4x4 (5x5) grid, all polylines up to 5 (6) vertices of a 3x3 grid.",
          "Direction-agnostic reading of outline/shared-edge clauses.", "6/C19"),
  "C20": ("model_checking", "explicit-state BFS over draw histories on the real MockDisplay beside a map model; complete enumeration of small patterns",
          "All action sequences to depth 3 (4) from the four flag combinations (panicking actions lead to the partially drawn state), each transition compared with the model: panic iff required, all cells, ==, diff, affected_area, Debug/from_pattern; all patterns up to 3x2 cells over every colour type's characters.",
          "get_pixel/set_pixel only with in-range points; bounded alphabet and depth.", "6/C20"),
}
NOT_YET = {}

def main():
    props = [json.loads(l) for l in open(os.path.join(HERE, "properties.jsonl"))]
    checks = []
    na = []
    for p in props:
        i = p["id"]
        if i in CHECKS:
            cat, tech, text, note, ref = CHECKS[i]
            checks.append({
                "property_id": i,
                "quick_cmd": f"./check {i} quick",
                "thorough_cmd": f"./check {i} thorough",
                "evidence_file": f"/verif/evidence/{i}.json",
                "replay_cmd_template": f"./check {i} --replay {{path}}",
                "engine": "egverif-xplore" if cat == "model_checking" else ("egverif-fault" if cat == "fault_enumeration" else "egverif-enum"),
                "level_claimed": {"category": cat, "text": text, "design_ref": f"DESIGN.md section {ref}"},
                "level_note": note,
                "technique": tech,
            })
        else:
            na.append({"property_id": i, "reason": NOT_YET.get(i, "check not built yet in this revision of /verif (planned, see DESIGN.md section 6); not a statement that the technique cannot apply")})
    m = {
        "version": 1,
        "setup_cmd": "./check --build-all",
        "hooks": {
            "guard": "--cfg eg_verif",
            "enable": "no hooks are needed: every anchored mechanism is reachable through the public API; the harness crate depends on /repo by path and is rebuilt from the working tree by every ./check invocation",
            "baseline_off_cmd": "cd /repo && cargo nextest run --workspace --no-fail-fast --offline || cargo test --workspace --no-fail-fast --offline",
            "source_commits": [],
            "add_only": True,
        },
        "engines": [
            {"name": "egverif-enum", "path": "harness/src/fw.rs (Run::sweep)", "serves_properties": [c["property_id"] for c in checks if c["engine"] == "egverif-enum"],
             "kind_free_text": "bounded exhaustive enumeration of listed finite input domains on the real code, parallel and deterministic, with vacuity guards (coverage classes) and reference-model oracles"},
            {"name": "egverif-xplore", "path": "harness/src/fw.rs (Run::explore)", "serves_properties": [c["property_id"] for c in checks if c["engine"] == "egverif-xplore"],
             "kind_free_text": "explicit-state breadth-first search over operation histories; the transition function is the real code, every transition is compared with a reference model; canonical-state deduplication; cross-checked by stateright in the thorough tier"},
            {"name": "egverif-fault", "path": "harness/src/targets.rs (Rec::failing_at)", "serves_properties": [c["property_id"] for c in checks if c["engine"] == "egverif-fault"],
             "kind_free_text": "exhaustive fault enumeration: for every k in 1..=n the run in which the k-th call on the underlying draw target fails"},
        ],
        "checks": checks,
        "not_applicable": na,
        "notes": "All checks: ./check <ID> quick|thorough (exit 0 held / 1 VIOLATION / >=2 machinery). A case that does not terminate within the per-case cap (EGV_CASE_CAP_S, 120 s quick / 900 s thorough) is a VIOLATION of clause terminates with a replay file, not a machinery failure. Known findings: known_findings.txt (23 fixed, none open). Detection experiments: seeded/RESULTS.md (237 independently written changes), seeded/MUTATION_SWEEP.md. See DESIGN.md.",
    }
    json.dump(m, open(os.path.join(HERE, "MANIFEST.json"), "w"), indent=1)
    print("MANIFEST.json written:", len(checks), "checks,", len(na), "not_applicable")

main()
