//! C15 Text layout: positions, alignment, baselines and line breaks are consistent
use egverif::catalog::TestColor;
use egverif::fw::*;
use egverif::targets::*;
use egverif::texts::*;
use embedded_graphics::pixelcolor::Rgb565;
use embedded_graphics::prelude::*;
use embedded_graphics::primitives::Rectangle;
use embedded_graphics::text::renderer::TextRenderer;

type C = Rgb565;

fn render(t: &TextCase) -> (Map<C>, Point) {
    let mut r = RecD::<C>::new();
    let o = t.build::<C>().draw(&mut r).unwrap();
    (r.map, o)
}

fn line_height_px(t: &TextCase) -> i32 {
    let h = t.font().character_size.height;
    (if t.lh.0 == 0 { t.lh.1 } else { h * t.lh.1 / 100 }) as i32
}

fn baseline_offset(t: &TextCase) -> i32 {
    let h = t.font().character_size.height as i32;
    match t.baseline {
        0 => 0,
        1 => h - 1,
        2 => (h - 1) / 2,
        _ => t.font().baseline as i32,
    }
}

fn check(t: &TextCase, obs: &mut Obs) {
    let font = t.font();
    let (cw, chh) = (font.character_size.width as i32, font.character_size.height as i32);
    let (map, result) = render(t);
    obs.outcome(&map);
    obs.outcome(&(result.x, result.y));
    obs.nontrivial_if(!map.is_empty());
    let lhpx = line_height_px(t);
    let pos = Point::new(t.pos.0, t.pos.1);
    obs.class(match t.align {
        0 => "left",
        1 => "center",
        _ => "right",
    });
    obs.class(match t.baseline {
        0 => "baseline-top",
        1 => "baseline-bottom",
        2 => "baseline-middle",
        _ => "baseline-alphabetic",
    });
    obs.class_if(t.text.contains("\r\n"), "crlf");
    obs.class_if(t.text.contains("\n\n") || t.text.ends_with('\n'), "empty-line");
    obs.class_if(t.lh.0 == 0, "line-height-pixels");
    obs.class_if(t.lh.0 == 1 && t.lh.1 != 100, "line-height-percent");
    obs.class_if(chh % 2 == 0 && t.baseline == 2, "middle-baseline-even-height");

    // the constructors are different entry points to the same settings
    {
        use embedded_graphics::text::{Text, TextStyle, TextStyleBuilder};
        let cs = t.style::<C>();
        let full = t.build::<C>();
        if t.align == 0 && t.lh == (1, 100) {
            let a = Text::with_baseline(&t.text, pos, cs, baseline(t.baseline));
            if a != full {
                obs.fail("constructors-agree", format!("Text::with_baseline gives text_style {:?}, with_text_style {:?}", a.text_style, full.text_style));
            }
        }
        if t.baseline == 3 && t.lh == (1, 100) {
            let a = Text::with_alignment(&t.text, pos, cs, align(t.align));
            let b = Text::with_text_style(&t.text, pos, cs, TextStyleBuilder::new().alignment(align(t.align)).build());
            if a != full || b != full {
                obs.fail("constructors-agree", format!("Text::with_alignment gives {:?}, builder default {:?}, explicit {:?}", a.text_style, b.text_style, full.text_style));
            }
            if t.align == 0 && Text::new(&t.text, pos, cs) != full {
                obs.fail("constructors-agree", "Text::new differs from the explicit default text style".to_string());
            }
            if TextStyle::with_alignment(align(t.align)) != full.text_style {
                obs.fail("constructors-agree", format!("TextStyle::with_alignment gives {:?}, builder {:?}", TextStyle::with_alignment(align(t.align)), full.text_style));
            }
        }
        if t.align == 0 && t.lh == (1, 100) && TextStyle::with_baseline(baseline(t.baseline)) != full.text_style {
            obs.fail("constructors-agree", format!("TextStyle::with_baseline gives {:?}, builder {:?}", TextStyle::with_baseline(baseline(t.baseline)), full.text_style));
        }
        // a builder started from an existing style keeps every setting that is not overridden
        let ts = full.text_style;
        let copy = TextStyleBuilder::from(&ts).build();
        let re_aligned = TextStyleBuilder::from(&TextStyleBuilder::from(&ts).alignment(align((t.align + 1) % 3)).build()).alignment(align(t.align)).build();
        let re_based = TextStyleBuilder::from(&TextStyleBuilder::from(&ts).baseline(baseline((t.baseline + 1) % 4)).build()).baseline(baseline(t.baseline)).build();
        if copy != ts || re_aligned != ts || re_based != ts {
            obs.fail("constructors-agree", format!("TextStyleBuilder::from(&style): style {:?}, copy {:?}, alignment changed and restored {:?}, baseline changed and restored {:?}", ts, copy, re_aligned, re_based));
        }
    }

    // the returned position does not depend on the size of the target: a target whose bounding box ends a few pixels
    // right of / below the position (so that most characters start beyond it) returns the same position and
    // receives the same pixels inside its box
    {
        let bb = Rectangle::new(pos - Point::new(5, 5), Size::new(14, 20));
        let mut small = RecD::<C>::with_box(bb);
        let o2 = t.build::<C>().draw(&mut small).unwrap();
        obs.class_if(map.keys().any(|k| k.0 > pos.x + 14), "characters-beyond-a-small-target");
        if o2 != result {
            obs.fail("returned-position-independent-of-target", format!("target box {:?}: draw returned {:?}; on a huge target {:?}", rt(&bb), o2, result));
        }
        let inside = |m: &Map<C>| -> Map<C> { m.iter().filter(|(k, _)| bb.contains(Point::new(k.0, k.1))).map(|(k, v)| (*k, *v)).collect() };
        if inside(&small.map) != inside(&map) {
            obs.fail("pixels-inside-a-small-target-unchanged", format!("target box {:?}: {}", rt(&bb), map_diff(&inside(&small.map), &inside(&map))));
        }
    }

    // \r\n behaves exactly like \n
    let lf = t.text.replace("\r\n", "\n");
    if lf != t.text {
        let (m2, r2) = render(&t.with_text(&lf));
        if m2 != map || r2 != result {
            obs.fail("crlf-equals-lf", format!("with \\r\\n: result {:?}; with \\n: result {:?}; {}", result, r2, map_diff(&map, &m2)));
        }
    }

    // text containing \n equals drawing its lines separately line_height apart (in draw order)
    let lines: Vec<&str> = lf.split('\n').collect();
    let mut union: Map<C> = Map::new();
    let mut last = pos;
    for (i, line) in lines.iter().enumerate() {
        let mut lc = t.with_text(line);
        lc.pos = (t.pos.0, t.pos.1 + i as i32 * lhpx);
        let (m, r) = render(&lc);
        last = r;
        // per line: alignment and baseline of its painted box (visible through the background fill)
        if t.bg && !line.is_empty() && !m.is_empty() {
            let n = line.chars().count() as i32;
            let x0 = m.keys().map(|k| k.0).min().unwrap();
            let x1 = m.keys().map(|k| k.0).max().unwrap();
            // rows of the character cells only (an underline may extend below)
            let y0 = m.keys().map(|k| k.1).min().unwrap();
            if x1 - x0 + 1 != n * cw {
                obs.fail("line-box-width", format!("line {:?}: painted columns {x0}..={x1}, {} characters of width {cw}", line, n));
            }
            let ok = match t.align {
                0 => x0 == pos.x,
                2 => x1 == pos.x,
                _ => (x0 + x1 - 2 * pos.x).abs() <= 1,
            };
            obs.class_if(line.len() > 7, "line-longer-than-7-bytes");
            if !ok {
                obs.fail("alignment-places-line-box", format!("line {:?} alignment {}: painted columns {x0}..={x1}, x position {}", line, t.align, pos.x));
            }
            let want_y0 = lc.pos.1 - baseline_offset(t);
            if y0 != want_y0 {
                obs.fail("baseline-offset", format!("line {i} {:?}: first painted row {y0}, expected {want_y0} (y {} baseline {})", line, lc.pos.1, t.baseline));
            }
        }
        // draw returns what measure_string predicts (left aligned text starts at the position)
        if t.align == 0 {
            let style = t.style::<C>();
            let ms = style.measure_string(line, Point::new(lc.pos.0, lc.pos.1), baseline(t.baseline));
            // the renderer called directly is the same entry point for a single left-aligned line
            if !line.ends_with('\r') {
                let mut direct = RecD::<C>::new();
                let n = style.draw_string(line, Point::new(lc.pos.0, lc.pos.1), baseline(t.baseline), &mut direct).unwrap();
                if direct.map != m || n != r {
                    obs.fail("Text-equals-draw_string-for-a-left-aligned-line", format!("line {:?}: draw_string returned {:?}, Text::draw {:?}; {}", line, n, r, map_diff(&direct.map, &m)));
                }
            }
            if r != ms.next_position {
                obs.fail("draw-returns-measure_string-next-position", format!("line {:?}: draw returned {:?}, measure_string predicts {:?}", line, r, ms.next_position));
            }
            // the measured box is where the cells are painted
            if t.bg && !m.is_empty() {
                let bb = ms.bounding_box;
                let x0 = m.keys().map(|k| k.0).min().unwrap();
                let y0 = m.keys().map(|k| k.1).min().unwrap();
                if bb.top_left != Point::new(x0, y0) {
                    obs.fail("measure_string-box-position", format!("line {:?}: measured box at {:?}, painted from ({x0},{y0})", line, bb.top_left));
                }
            }
        }
        for (k, v) in m {
            union.insert(k, v);
        }
    }
    if union != map {
        obs.fail("multi-line-equals-separate-lines", format!("{} lines, line height {lhpx}: {}", lines.len(), map_diff(&map, &union)));
    }
    if last != result {
        obs.fail("multi-line-result-equals-last-line", format!("draw returned {:?}, the last line drawn separately returns {:?}", result, last));
    }
    // the same for the pieces of a CR LF text cut at the line feeds only: a piece keeps its carriage return at the end,
    // which belongs to the line break and must not become a cell when the piece is drawn on its own
    if lf != t.text {
        let mut union2: Map<C> = Map::new();
        let mut last2 = pos;
        for (i, piece) in t.text.split('\n').enumerate() {
            let mut lc = t.with_text(piece);
            lc.pos = (t.pos.0, t.pos.1 + i as i32 * lhpx);
            let (m, r) = render(&lc);
            last2 = r;
            union2.extend(m);
        }
        obs.class("crlf-pieces-drawn-separately");
        if union2 != map || last2 != result {
            obs.fail("crlf-equals-lf", format!("the pieces between the line feeds (each ending in a carriage return) drawn separately: last returns {:?}, whole text {:?}; {}", last2, result, map_diff(&union2, &map)));
        }
    }

    // chaining: s1 then s2 at the returned position equals s1 + s2 (single line, left aligned, fonts without spacing)
    if t.align == 0 && !t.text.contains('\n') && !t.text.contains('\r') && font.character_spacing == 0 {
        let chars: Vec<char> = t.text.chars().collect();
        for i in 0..=chars.len() {
            let s1: String = chars[..i].iter().collect();
            let s2: String = chars[i..].iter().collect();
            let mut r = RecD::<C>::new();
            let c1 = t.with_text(&s1);
            let n1 = c1.build::<C>().draw(&mut r).unwrap();
            let mut c2 = t.with_text(&s2);
            c2.pos = (n1.x, n1.y);
            let n2 = c2.build::<C>().draw(&mut r).unwrap();
            obs.class("chained");
            if r.map != map || n2 != result {
                obs.fail("chaining-equals-concatenation", format!("{:?} then {:?}: returned {:?} then {:?}, whole string returns {:?}; {}", s1, s2, n1, n2, result, map_diff(&r.map, &map)));
                break;
            }
        }
    }
}

const STRINGS: [&str; 15] = ["21\u{b0}\nabcd\n\u{1F600}", "", "a", "ab", "a\nbc", "ab\r\nc", "\n", "a\n", "\r\n", "ab\n\nc", "Hello World!\nx", "Hello World!\r\nabcdefghij\r\n", "q\u{1F600}\u{7}", "a\tb", "gjpqy|_W"];

fn cases(tier: Tier) -> Vec<TextCase> {
    let fonts: Vec<usize> = if tier.is_thorough() { (0..FONTS.len()).collect() } else { fonts_of("ascii") };
    let mut v = vec![];
    // one line of 300 characters (wider than any 8-bit counter) and a text of 300 lines, for two fonts
    let long_line: String = (0..300).map(|i| (b'a' + (i % 26) as u8) as char).collect();
    let many_lines: String = (0..300).map(|i| if i % 2 == 0 { "x\n" } else { "yz\r\n" }).collect();
    for font in ["ascii::FONT_4X6", "ascii::FONT_6X9"] {
        for (text, al) in [(&long_line, 0u8), (&long_line, 1), (&long_line, 2), (&many_lines, 0), (&many_lines, 2)] {
            for (tc, bg, ul) in [(true, true, 0u8), (true, false, 1)] {
                v.push(TextCase { font: font.to_string(), text: text.clone(), text_color: tc, bg, underline: ul, strike: 0, baseline: 3, align: al, lh: (1, 100), pos: (-30, 11) });
            }
        }
    }
    for f in fonts {
        for s in STRINGS {
            for al in 0..3u8 {
                for bl in 0..4u8 {
                    for lh in [(1, 100), (1, 150), (0, 0), (0, 7)] {
                        for (ul, st) in [(0u8, 0u8), (1, 0), (0, 2), (2, 1)] {
                            // also without a text colour: background only, decorations only, nothing at all (the returned
                            // positions and the layout of what is painted must not depend on the colours)
                            for (tc, bg) in [(true, true), (true, false), (false, true), (false, false)] {
                                let pos = if (al + bl) % 2 == 0 { (3, -4) } else { (-30, 11) };
                                v.push(TextCase { font: font_name(f), text: s.to_string(), text_color: tc, bg, underline: ul, strike: st, baseline: bl, align: al, lh, pos });
                            }
                        }
                    }
                }
            }
        }
    }
    v
}

fn run_part(run: &mut Run) {
    let tier = run.tier;
    run.sweep_vec(
        "layout",
        "built-in fonts (quick: the 22 ascii fonts = every size/weight; thorough: all 292) x 15 strings (empty, single/multi-line, empty lines, trailing newline, CR LF, long lines, unmapped characters, consecutive lines of equal byte length but different character counts) x 3 alignments x 4 baselines x 4 line heights x 4 decoration sets x background on/off x 2 positions, plus a 300-character line and a 300-line text in two fonts",
        || cases(tier),
        check,
    );
}

fn main() {
    egverif::fw::main(Prop {
        id: "C15",
        level: "exploration",
        rule: "every text case of the listed product once; non-trivial = something is painted; per case: CR LF version == LF version (map and returned position), the whole text == its lines drawn separately line_height apart (in draw order) and returns what the last line returns, every line's painted box starts at / ends at / is centred within half a pixel on the x position and starts at y minus the baseline offset (Top 0, Bottom h-1, Middle (h-1)/2, Alphabetic font.baseline), left-aligned draw returns measure_string's next_position, drawing into a target whose box ends 8 px right of the position returns the same position and paints the same pixels inside that box, every Text/TextStyle/TextStyleBuilder constructor (including TextStyleBuilder::from(&style)) gives the same settings, and for single-line strings every split s1+s2 chained through the returned position equals the whole string",
        assumptions: &["all built-in fonts have character spacing 0 (the chaining clause is restricted to such fonts by the statement)", "Middle is the centre row of the character box rounded down, like Rectangle::center"],
        parts: |_| vec![PartSpec::new("all", "verif")],
        run_part,
        required_classes: |_| vec!["crlf-pieces-drawn-separately", "left", "center", "right", "baseline-top", "baseline-bottom", "baseline-middle", "baseline-alphabetic", "crlf", "empty-line", "line-height-pixels", "line-height-percent", "middle-baseline-even-height", "line-longer-than-7-bytes", "chained", "characters-beyond-a-small-target"],
        crash_is_verdict: false,
    })
}
