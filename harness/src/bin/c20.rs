//! C20 MockDisplay is a faithful test oracle
//! Explicit-state exploration of draw histories on the real MockDisplay beside a map model, plus a
//! complete enumeration of small patterns for from_pattern / Debug.
use egverif::fw::*;
use egverif::targets::rect;
use embedded_graphics::mock_display::{ColorMapping, MockDisplay};
use embedded_graphics::pixelcolor::*;
use embedded_graphics::prelude::*;
use embedded_graphics::primitives::Rectangle;
use core::fmt::Write as _;
use serde::{Deserialize, Serialize};
use std::collections::BTreeMap;
use std::hash::{Hash, Hasher};

type P2 = (i32, i32);
type R4 = (i32, i32, u32, u32);

#[derive(Clone, Debug, PartialEq, Eq, Hash, Serialize, Deserialize)]
enum A {
    Over(bool),
    Oob(bool),
    Draw(Vec<(P2, bool)>),
    Solid(R4, bool),
    Contig(R4, u32),
    Clear(bool),
    /// set_pixel (not a drawing operation: no overdraw check), None = make untouched
    Set(P2, Option<bool>),
}

#[derive(Clone, Debug, PartialEq, Eq, Hash, Serialize, Deserialize)]
struct Init {
    over: bool,
    oob: bool,
}

#[derive(Clone)]
struct St {
    d: MockDisplay<BinaryColor>,
    m: BTreeMap<P2, bool>,
    over: bool,
    oob: bool,
    prev: Option<Box<(MockDisplay<BinaryColor>, BTreeMap<P2, bool>)>>,
}

fn in_range(p: &P2) -> bool {
    p.0 >= 0 && p.1 >= 0 && p.0 < 64 && p.1 < 64
}
/// the points of an area in row-major order; points whose coordinates would pass i32::MAX do not exist
fn row_major(a: &R4) -> Vec<P2> {
    let mut v = vec![];
    for y in 0..a.3 as i64 {
        for x in 0..a.2 as i64 {
            let (px, py) = (a.0 as i64 + x, a.1 as i64 + y);
            if px < i32::MAX as i64 && py < i32::MAX as i64 {
                v.push((px as i32, py as i32));
            }
        }
    }
    v
}

struct M {
    depth_alphabet: Vec<A>,
}

fn cells(d: &MockDisplay<BinaryColor>) -> Vec<u8> {
    let mut v = Vec::with_capacity(4096);
    for y in 0..64 {
        for x in 0..64 {
            v.push(match d.get_pixel(Point::new(x, y)) {
                None => 0,
                Some(BinaryColor::Off) => 1,
                Some(BinaryColor::On) => 2,
            });
        }
    }
    v
}

fn expected_area(m: &BTreeMap<P2, bool>) -> R4 {
    if m.is_empty() {
        return (0, 0, 0, 0);
    }
    let x0 = m.keys().map(|k| k.0).min().unwrap();
    let x1 = m.keys().map(|k| k.0).max().unwrap();
    let y0 = m.keys().map(|k| k.1).min().unwrap();
    let y1 = m.keys().map(|k| k.1).max().unwrap();
    (x0, y0, (x1 - x0 + 1) as u32, (y1 - y0 + 1) as u32)
}

fn debug_rows<C: PixelColor + ColorMapping>(d: &MockDisplay<C>) -> (Vec<String>, String) {
    let dbg = format!("{:?}", d);
    let rows: Vec<String> = dbg.lines().skip(1).filter(|l| !(l.starts_with('(') && l.ends_with("skipped)")) && *l != "]").map(|s| s.to_string()).collect();
    (rows, dbg)
}

fn check_state(s: &St, obs: &mut Obs) {
    // get_pixel == model on every cell
    let mut bad = None;
    for y in 0..64 {
        for x in 0..64 {
            let g = s.d.get_pixel(Point::new(x, y)).map(|c| c.is_on());
            if g != s.m.get(&(x, y)).copied() {
                bad = Some(((x, y), g, s.m.get(&(x, y)).copied()));
            }
        }
    }
    if let Some(b) = bad {
        obs.fail("get_pixel==last-drawn", format!("cell {:?}: get_pixel {:?}, model {:?}", b.0, b.1, b.2));
    }
    let aa = s.d.affected_area();
    let ea = expected_area(&s.m);
    if egverif::targets::rt(&aa) != ea && !(ea.2 == 0 && aa.is_zero_sized()) {
        obs.fail("affected_area-is-tight-box", format!("affected_area {:?}, touched cells box {:?}", egverif::targets::rt(&aa), ea));
    }
    // Debug -> from_pattern round trip, and the printed rows against the model
    let (rows, dbg) = debug_rows(&s.d);
    let refs: Vec<&str> = rows.iter().map(|r| r.as_str()).collect();
    let back = MockDisplay::<BinaryColor>::from_pattern(&refs);
    if back != s.d || cells(&back) != cells(&s.d) {
        obs.fail("debug-from_pattern-round-trip", format!("from_pattern(Debug output) differs from the display; output:\n{dbg}"));
    }
    if guarded(|| s.d.assert_pattern(&refs)).is_err() || guarded(|| s.d.assert_eq(&s.d.clone())).is_err() {
        obs.fail("assert_pattern-panics-iff-cells-differ", "a display fails assert_pattern on its own Debug rows or assert_eq on its clone".to_string());
    }
    // other constructors and views: from_points, set_pixels, swap_xy (an involution that mirrors cells), map(identity)
    {
        let on: Vec<Point> = s.m.iter().filter(|(_, c)| **c).map(|(k, _)| Point::new(k.0, k.1)).collect();
        let off: Vec<Point> = s.m.iter().filter(|(_, c)| !**c).map(|(k, _)| Point::new(k.0, k.1)).collect();
        let mut rebuilt = MockDisplay::from_points(on.iter().copied(), BinaryColor::On);
        rebuilt.set_pixels(off.iter().copied(), Some(BinaryColor::Off));
        if cells(&rebuilt) != cells(&s.d) || rebuilt != s.d {
            obs.fail("from_points/set_pixels-rebuild-the-display", "display rebuilt from its cells differs".to_string());
        }
        let sw = s.d.swap_xy();
        let mirrored = (0..64).all(|y| (0..64).all(|x| sw.get_pixel(Point::new(y, x)) == s.d.get_pixel(Point::new(x, y))));
        if !mirrored || sw.swap_xy() != s.d {
            obs.fail("swap_xy-mirrors-cells", format!("cells mirrored: {mirrored}, involution: {}", sw.swap_xy() == s.d));
        }
        let inv = s.d.map(|c| c.invert()).map(|c| c.invert());
        if inv != s.d || s.d.map(|c| c) != s.d {
            obs.fail("map-applies-to-every-cell", "map(invert) twice or map(identity) changes the display".to_string());
        }
        let once = s.d.map(|c| c.invert());
        if (0..64).any(|y| (0..64).any(|x| once.get_pixel(Point::new(x, y)) != s.d.get_pixel(Point::new(x, y)).map(|c| c.invert()))) {
            obs.fail("map-applies-to-every-cell", "map(invert) is not the cell-wise inverse".to_string());
        }
    }
    // equality / diff against the predecessor and the blank display
    let blank = MockDisplay::<BinaryColor>::new();
    let mut others: Vec<(&MockDisplay<BinaryColor>, BTreeMap<P2, bool>)> = vec![(&blank, BTreeMap::new())];
    if let Some(p) = &s.prev {
        others.push((&p.0, p.1.clone()));
    }
    for (o, om) in &others {
        let same = *om == s.m;
        if (s.d == **o) != same || (**o == s.d) != same {
            obs.fail("eq-iff-all-cells-agree", format!("== returned {}, cells agree: {}", s.d == **o, same));
        }
        // the assertion helpers tests actually call: they panic exactly when the displays differ
        let (a1, a2) = (guarded(|| s.d.assert_eq(o)).is_err(), guarded(|| o.assert_eq_with_message(&s.d, |f| write!(f, "m"))).is_err());
        if a1 == same || a2 == same {
            obs.fail("assert_eq-panics-iff-cells-differ", format!("assert_eq panicked: {a1}, assert_eq_with_message (reversed) panicked: {a2}, cells agree: {same}"));
        }
        let (orows, _) = debug_rows(*o);
        let orefs: Vec<&str> = orows.iter().map(|r| r.as_str()).collect();
        let (p1, p2) = (guarded(|| s.d.assert_pattern(&orefs)).is_err(), guarded(|| s.d.assert_pattern_with_message(&orefs, |f| write!(f, "m"))).is_err());
        if p1 == same || p2 == same {
            obs.fail("assert_pattern-panics-iff-cells-differ", format!("assert_pattern panicked: {p1}, assert_pattern_with_message panicked: {p2}, cells agree: {same}"));
        }
        let df = s.d.diff(o);
        let mut dbad = None;
        let mut any = false;
        for y in 0..64 {
            for x in 0..64 {
                let a = s.m.get(&(x, y));
                let b = om.get(&(x, y));
                let want = match (a, b) {
                    (Some(_), None) => Some(Rgb888::GREEN),
                    (None, Some(_)) => Some(Rgb888::RED),
                    (Some(p), Some(q)) if p != q => Some(Rgb888::BLUE),
                    _ => None,
                };
                let got = df.get_pixel(Point::new(x, y));
                any |= got.is_some();
                if got != want {
                    dbad = Some(((x, y), got, want));
                }
            }
        }
        if let Some(b) = dbad {
            obs.fail("diff-marks-exactly-the-differing-cells", format!("cell {:?}: diff {:?}, expected {:?}", b.0, b.1, b.2));
        }
        if any == same {
            obs.fail("diff-empty-iff-all-cells-agree", format!("diff has cells: {any}, cells agree: {same}"));
        }
        if df.affected_area().is_zero_sized() != same {
            obs.fail("diff-empty-iff-all-cells-agree", format!("diff affected_area zero: {}, cells agree: {same}", df.affected_area().is_zero_sized()));
        }
    }
}

impl Model for M {
    type State = St;
    type Init = Init;
    type Action = A;
    fn init(&self, i: &Init) -> St {
        let mut d = MockDisplay::new();
        d.set_allow_overdraw(i.over);
        d.set_allow_out_of_bounds_drawing(i.oob);
        St { d, m: BTreeMap::new(), over: i.over, oob: i.oob, prev: None }
    }
    fn actions(&self, _i: &Init, _s: &St, _d: usize) -> Vec<A> {
        self.depth_alphabet.clone()
    }
    fn check_state(&self, _i: &Init, s: &St, obs: &mut Obs) {
        check_state(s, obs)
    }
    fn step(&self, _i: &Init, s: &St, a: &A, obs: &mut Obs) -> St {
        let mut n = St { d: s.d.clone(), m: s.m.clone(), over: s.over, oob: s.oob, prev: Some(Box::new((s.d.clone(), s.m.clone()))) };
        // model: pixels in order, stop at the first offending one
        let mut model_panics = false;
        let mut pix: Vec<(P2, bool)> = vec![];
        match a {
            A::Over(b) => n.over = *b,
            A::Oob(b) => n.oob = *b,
            A::Draw(v) => pix = v.clone(),
            A::Solid(r, c) => pix = row_major(r).into_iter().map(|p| (p, *c)).collect(),
            A::Contig(r, len) => pix = row_major(r).into_iter().take(*len as usize).enumerate().map(|(i, p)| (p, i % 2 == 0)).collect(),
            A::Clear(c) => pix = row_major(&(0, 0, 64, 64)).into_iter().map(|p| (p, *c)).collect(),
            // set_pixel is documented to panic for a point outside the display (whatever the two flags say)
            A::Set(p, _) if !in_range(p) => model_panics = true,
            A::Set(p, c) => match c {
                Some(c) => {
                    n.m.insert(*p, *c);
                }
                None => {
                    n.m.remove(p);
                }
            },
        }
        let mut why = if model_panics { "set_pixel outside the display" } else { "" };
        for (p, c) in &pix {
            if !in_range(p) {
                if !n.oob {
                    model_panics = true;
                    why = "out of bounds";
                    break;
                }
                continue;
            }
            if n.m.contains_key(p) && !n.over {
                model_panics = true;
                why = "overdraw";
                break;
            }
            n.m.insert(*p, *c);
        }
        let d = &mut n.d;
        let r = guarded(|| match a {
            A::Over(b) => d.set_allow_overdraw(*b),
            A::Oob(b) => d.set_allow_out_of_bounds_drawing(*b),
            A::Draw(v) => d.draw_iter(v.iter().map(|(p, c)| Pixel(Point::new(p.0, p.1), BinaryColor::from(*c)))).unwrap(),
            A::Solid(r, c) => d.fill_solid(&rect(r.0, r.1, r.2, r.3), BinaryColor::from(*c)).unwrap(),
            A::Contig(r, len) => d.fill_contiguous(&rect(r.0, r.1, r.2, r.3), (0..*len).map(|i| BinaryColor::from(i % 2 == 0))).unwrap(),
            A::Clear(c) => d.clear(BinaryColor::from(*c)).unwrap(),
            A::Set(p, c) => d.set_pixel(Point::new(p.0, p.1), c.map(BinaryColor::from)),
        });
        obs.nontrivial_if(!pix.is_empty() || matches!(a, A::Set(..)));
        obs.class_if(model_panics && why == "overdraw", "panic-overdraw");
        obs.class_if(model_panics && why == "out of bounds", "panic-out-of-bounds");
        obs.class_if(!model_panics && pix.iter().any(|(p, _)| !in_range(p)), "out-of-bounds-ignored");
        obs.class_if(!model_panics && n.over && pix.iter().any(|(p, _)| s.m.contains_key(p)), "overdraw-allowed");
        obs.class_if(model_panics && n.m != s.m, "partial-draw-before-panic");
        if model_panics {
            obs.count("panicking_transitions", 1);
        }
        match (&r, model_panics) {
            (Err(msg), false) => obs.fail("panics-exactly-when-required", format!("drawing panicked ({msg}) although every pixel is in range or allowed and not drawn twice")),
            (Ok(()), true) => obs.fail("panics-exactly-when-required", format!("drawing did not panic although the model requires it ({why})")),
            _ => {}
        }
        check_state(&n, obs);
        n
    }
    fn key(&self, s: &St) -> u64 {
        let mut h = std::collections::hash_map::DefaultHasher::new();
        cells(&s.d).hash(&mut h);
        (s.over, s.oob).hash(&mut h);
        h.finish()
    }
}

fn alphabet(tier: Tier) -> Vec<A> {
    let pts: Vec<P2> = vec![(0, 0), (1, 0), (63, 63), (5, 7), (-1, 0), (64, 0), (0, 64), (i32::MAX, 0)];
    let mut v = vec![A::Over(true), A::Over(false), A::Oob(true), A::Oob(false), A::Clear(true)];
    for p in &pts {
        for c in [false, true] {
            v.push(A::Draw(vec![(*p, c)]));
        }
    }
    v.push(A::Draw(vec![((0, 0), true), ((0, 0), false)]));
    // out-of-range points near and very far from the display (far enough for y * 64 to pass 2^31) between in-range ones
    v.push(A::Draw(vec![((5, 7), true), ((64, 0), false), ((3, 1 << 30), false), ((-7, i32::MIN), true), ((i32::MAX, i32::MAX), true), ((1, 0), true)]));
    v.push(A::Draw(vec![]));
    v.push(A::Solid((62, 62, 3, 3), true));
    v.push(A::Solid((0, 0, 2, 1), false));
    // an area whose right edge lies beyond i32::MAX (all of its representable points are outside the display)
    v.push(A::Solid((i32::MAX - 2, 0, 10, 1), true));
    v.push(A::Contig((3, i32::MAX - 1, 2, 4), 8));
    v.push(A::Contig((62, 0, 2, 2), 3));
    // sticks out on the right: the discarded points are not a suffix of the colour stream
    v.push(A::Contig((63, 0, 2, 2), 4));
    v.push(A::Set((5, 7), None));
    v.push(A::Set((63, 0), Some(true)));
    v.push(A::Set((64, 5), Some(true)));
    v.push(A::Set((3, -1), None));
    if tier.is_thorough() {
        v.push(A::Draw(vec![((0, 63), true), ((0, i32::MIN), true)]));
        v.push(A::Solid((-1, 5, 3, 1), true));
        v.push(A::Contig((0, 63, 3, 2), 6));
        v.push(A::Contig((-1, -1, 3, 2), 6));
        v.push(A::Clear(false));
        v.push(A::Set((0, 0), Some(false)));
    }
    v
}

// ---- patterns -------------------------------------------------------------------------------

#[derive(Clone, Debug, PartialEq, Eq, Hash, Serialize, Deserialize)]
struct Pat {
    color: String,
    rows: Vec<String>,
}

fn pattern_check<C: PixelColor + ColorMapping + core::fmt::Debug>(p: &Pat, table: &[(char, C)], obs: &mut Obs) {
    let refs: Vec<&str> = p.rows.iter().map(|r| r.as_str()).collect();
    let d = MockDisplay::<C>::from_pattern(&refs);
    obs.nontrivial_if(p.rows.iter().any(|r| r.chars().any(|c| c != ' ')));
    obs.outcome(&p.rows);
    // cells
    for y in 0..64usize {
        for x in 0..64usize {
            let ch = p.rows.get(y).and_then(|r| r.chars().nth(x)).unwrap_or(' ');
            let want = if ch == ' ' { None } else { Some(table.iter().find(|e| e.0 == ch).expect("char in table").1) };
            let got = d.get_pixel(Point::new(x as i32, y as i32));
            if got != want {
                obs.fail("from_pattern-cells", format!("cell ({x},{y}) char {:?}: {:?} expected {:?}", ch, got, want));
                return;
            }
        }
    }
    // only the round trip is asserted (the statement does not fix the text format beyond being parseable by from_pattern)
    let (rows, dbg) = debug_rows(&d);
    let r2: Vec<&str> = rows.iter().map(|r| r.as_str()).collect();
    let back = MockDisplay::<C>::from_pattern(&r2);
    if back != d || !back.diff(&d).affected_area().is_zero_sized() {
        obs.fail("debug-from_pattern-round-trip", dbg);
    }
}

fn all_patterns(color: &str, chars: &[char], w: usize, h: usize) -> Vec<Pat> {
    let n = chars.len();
    let cells = w * h;
    let total = n.pow(cells as u32);
    let mut v = Vec::with_capacity(total);
    for mut i in 0..total {
        let mut rows = vec![String::new(); h];
        for c in 0..cells {
            rows[c / w].push(chars[i % n]);
            i /= n;
        }
        v.push(Pat { color: color.to_string(), rows });
    }
    v
}

macro_rules! rgb_table {
    ($t:ty) => {
        vec![('K', <$t>::BLACK), ('R', <$t>::RED), ('G', <$t>::GREEN), ('B', <$t>::BLUE), ('Y', <$t>::YELLOW), ('M', <$t>::MAGENTA), ('C', <$t>::CYAN), ('W', <$t>::WHITE)]
    };
}

fn check_pat(p: &Pat, obs: &mut Obs) {
    obs.class("pattern");
    let hex = |i: u32| core::char::from_digit(i, 16).unwrap().to_ascii_uppercase();
    match p.color.as_str() {
        "BinaryColor" => pattern_check(p, &[('.', BinaryColor::Off), ('#', BinaryColor::On)], obs),
        "Gray2" => pattern_check(p, &(0..4).map(|i| (hex(i), Gray2::new(i as u8))).collect::<Vec<_>>(), obs),
        "Gray4" => pattern_check(p, &(0..16).map(|i| (hex(i), Gray4::new(i as u8))).collect::<Vec<_>>(), obs),
        "Gray8" => pattern_check(p, &(0..16).map(|i| (hex(i), Gray8::new(i as u8 * 0x11))).collect::<Vec<_>>(), obs),
        "Rgb332" => pattern_check(p, &rgb_table!(Rgb332), obs),
        "Rgb444" => pattern_check(p, &rgb_table!(Rgb444), obs),
        "Rgb555" => pattern_check(p, &rgb_table!(Rgb555), obs),
        "Bgr555" => pattern_check(p, &rgb_table!(Bgr555), obs),
        "Rgb565" => pattern_check(p, &rgb_table!(Rgb565), obs),
        "Bgr565" => pattern_check(p, &rgb_table!(Bgr565), obs),
        "Rgb888" => pattern_check(p, &rgb_table!(Rgb888), obs),
        "Bgr888" => pattern_check(p, &rgb_table!(Bgr888), obs),
        other => panic!("unknown colour {other}"),
    }
}

fn pattern_cases(tier: Tier) -> Vec<Pat> {
    let hex: Vec<char> = std::iter::once(' ').chain((0..16).map(|i| core::char::from_digit(i, 16).unwrap().to_ascii_uppercase())).collect();
    let rgb: Vec<char> = " KRGBYMCW".chars().collect();
    let mut v = vec![];
    v.extend(all_patterns("BinaryColor", &[' ', '.', '#'], 3, 2));
    v.extend(all_patterns("BinaryColor", &[' ', '.', '#'], 2, 3));
    v.extend(all_patterns("BinaryColor", &[' ', '.', '#'], 1, 1));
    v.push(Pat { color: "BinaryColor".into(), rows: vec![] });
    v.extend(all_patterns("Gray2", &hex[..5], 3, 2));
    let t = tier.is_thorough();
    v.extend(all_patterns("Gray4", &hex, if t { 2 } else { 3 }, if t { 2 } else { 1 }));
    v.extend(all_patterns("Gray8", &hex, 2, if t { 2 } else { 1 }));
    for c in ["Rgb332", "Rgb444", "Rgb555", "Bgr555", "Rgb565", "Bgr565", "Rgb888", "Bgr888"] {
        if t && (c == "Rgb565" || c == "Bgr888") {
            v.extend(all_patterns(c, &rgb, 3, 2));
        } else {
            v.extend(all_patterns(c, &rgb, 2, 2));
        }
    }
    // full-size pattern
    let full: Vec<String> = (0..64).map(|y| (0..64).map(|x| if (x + y) % 3 == 0 { '#' } else if (x * y) % 5 == 0 { ' ' } else { '.' }).collect()).collect();
    v.push(Pat { color: "BinaryColor".into(), rows: full });
    v
}

fn run_part(run: &mut Run) {
    let tier = run.tier;
    match run.part.as_str() {
        "histories" => {
            let m = M { depth_alphabet: alphabet(tier) };
            let inits = vec![Init { over: false, oob: false }, Init { over: true, oob: false }, Init { over: false, oob: true }, Init { over: true, oob: true }];
            run.note(format!("{} actions", m.depth_alphabet.len()));
            let depth = tier.pick(3, 4);
            let stats = run.explore("draw-histories", "all sequences of set_allow_*/draw_iter/fill_solid/fill_contiguous/clear/set_pixel actions over in-range, edge, out-of-range and repeated points from the four flag combinations; a panicking action leads to the partially drawn state", &m, inits.clone(), depth);
            // second engine over the same transition function: must see the same state space
            run.cross_check_stateright("draw-histories", std::sync::Arc::new(m), inits, depth, &stats);
        }
        "patterns" => {
            run.sweep_vec("patterns", "all patterns of up to 3x2 cells over each colour type's character set (larger sets: 2x2 / 3x1), plus the empty and a full 64x64 pattern", || pattern_cases(tier), check_pat);
        }
        p => panic!("unknown part {p}"),
    }
}

fn main() {
    egverif::fw::main(Prop {
        id: "C20",
        level: "model_checking",
        rule: "explicit-state BFS over draw histories on the real MockDisplay beside a map model (key = all 64x64 cells + both flags = the complete state); every transition is compared with the model (panic iff required, partial draw before a panic, get_pixel on all cells, ==, diff, affected_area, Debug/from_pattern round trip); distinct_nontrivial counts distinct reached states plus non-blank patterns",
        assumptions: &["get_pixel/set_pixel are only called with in-range points", "bounded to the listed action alphabet and depth; patterns complete up to the listed sizes"],
        parts: |_| vec![PartSpec::new("histories", "verif"), PartSpec::new("patterns", "verif")],
        run_part,
        required_classes: |_| vec!["panic-overdraw", "panic-out-of-bounds", "out-of-bounds-ignored", "overdraw-allowed", "partial-draw-before-panic", "pattern"],
        crash_is_verdict: false,
    })
}
