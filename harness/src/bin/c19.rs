//! C19 Triangles cover their interior and polylines are the union of their segments
use egverif::fw::*;
use embedded_graphics::pixelcolor::BinaryColor;
use embedded_graphics::prelude::*;
use embedded_graphics::primitives::*;
use serde::{Deserialize, Serialize};
use std::collections::BTreeSet;

type P2 = (i32, i32);
type Pts = BTreeSet<P2>;

fn pt(p: P2) -> Point {
    Point::new(p.0, p.1)
}
fn orient(a: P2, b: P2, c: P2) -> i64 {
    (b.0 - a.0) as i64 * (c.1 - a.1) as i64 - (b.1 - a.1) as i64 * (c.0 - a.0) as i64
}
/// closed mathematical triangle (exact); degenerate triangles are segments / points
fn inside(p: P2, t: &[P2; 3]) -> bool {
    let (d1, d2, d3) = (orient(t[0], t[1], p), orient(t[1], t[2], p), orient(t[2], t[0], p));
    let neg = d1 < 0 || d2 < 0 || d3 < 0;
    let pos = d1 > 0 || d2 > 0 || d3 > 0;
    if neg && pos {
        return false;
    }
    if orient(t[0], t[1], t[2]) != 0 {
        return true;
    }
    // colinear vertices: p must lie within the bounding box of the vertices (and on the line: all d == 0)
    d1 == 0 && d2 == 0 && d3 == 0 && {
        let (x0, x1) = (t.iter().map(|q| q.0).min().unwrap(), t.iter().map(|q| q.0).max().unwrap());
        let (y0, y1) = (t.iter().map(|q| q.1).min().unwrap(), t.iter().map(|q| q.1).max().unwrap());
        p.0 >= x0 && p.0 <= x1 && p.1 >= y0 && p.1 <= y1 && {
            // all three coincide: only that point; otherwise on the segment between the extreme vertices
            true
        }
    }
}
fn seg_dist(p: P2, a: P2, b: P2) -> f64 {
    let (px, py, ax, ay, bx, by) = (p.0 as f64, p.1 as f64, a.0 as f64, a.1 as f64, b.0 as f64, b.1 as f64);
    let l2 = (bx - ax).powi(2) + (by - ay).powi(2);
    if l2 == 0.0 {
        return ((px - ax).powi(2) + (py - ay).powi(2)).sqrt();
    }
    let t = (((px - ax) * (bx - ax) + (py - ay) * (by - ay)) / l2).clamp(0.0, 1.0);
    ((px - ax - t * (bx - ax)).powi(2) + (py - ay - t * (by - ay)).powi(2)).sqrt()
}
fn line_pts(a: P2, b: P2) -> Vec<P2> {
    Line::new(pt(a), pt(b)).points().map(|p| (p.x, p.y)).collect()
}
fn tri_set(t: &[P2; 3]) -> Pts {
    Triangle::new(pt(t[0]), pt(t[1]), pt(t[2])).points().take(2_000_000).map(|p| (p.x, p.y)).collect()
}

#[derive(Clone, Debug, PartialEq, Eq, Hash, Serialize, Deserialize)]
enum Case {
    Tri { v: [P2; 3], orders: bool },
    /// triangles (a, b, c) and (a, b, d) with c, d strictly on opposite sides of ab
    Shared { a: P2, b: P2, c: P2, d: P2 },
    Poly { v: Vec<P2> },
}

fn check_tri(v: &[P2; 3], orders: bool, obs: &mut Obs) {
    let t = Triangle::new(pt(v[0]), pt(v[1]), pt(v[2]));
    let set = tri_set(v);
    if set.len() <= 40 {
        iter_protocol("Triangle::points()", 40, || t.points(), obs);
    }
    let area2 = orient(v[0], v[1], v[2]);
    obs.outcome(&set);
    obs.nontrivial_if(!set.is_empty());
    obs.class("triangle");
    obs.class_if(area2 == 0 && !(v[0] == v[1] && v[1] == v[2]), "colinear");
    obs.class_if(v[0] == v[1] || v[1] == v[2] || v[0] == v[2], "coincident-vertices");
    obs.class_if(area2 > 0, "clockwise");
    obs.class_if(area2 < 0, "counter-clockwise");
    let (x0, x1) = (v.iter().map(|q| q.0).min().unwrap(), v.iter().map(|q| q.0).max().unwrap());
    let (y0, y1) = (v.iter().map(|q| q.1).min().unwrap(), v.iter().map(|q| q.1).max().unwrap());
    let mut worst = 0f64;
    for y in y0 - 2..=y1 + 2 {
        for x in x0 - 2..=x1 + 2 {
            let p = (x, y);
            let ins = inside(p, v);
            let got = set.contains(&p);
            if ins && !got {
                obs.fail("covers-every-point-inside-the-mathematical-triangle", format!("{:?} is inside but not covered", p));
                return;
            }
            if got && !ins {
                let d = seg_dist(p, v[0], v[1]).min(seg_dist(p, v[1], v[2])).min(seg_dist(p, v[2], v[0]));
                worst = worst.max(d);
                if d > 1.0 + 1e-9 {
                    obs.fail("covered-points-within-one-pixel-of-an-edge", format!("{:?} is covered but {:.3} px outside", p, d));
                    return;
                }
            }
        }
    }
    obs.max("max_outside_distance_milli_px", (worst * 1000.0) as u64);
    if orders {
        // the vertices handed over as a slice, in the given and in the reverse order
        for perm in [[0, 1, 2], [2, 1, 0]] {
            let sl = [pt(v[perm[0]]), pt(v[perm[1]]), pt(v[perm[2]])];
            let s2: Pts = Triangle::from_slice(&sl).points().take(2_000_000).map(|p| (p.x, p.y)).collect();
            if s2 != set {
                obs.fail("independent-of-vertex-order", format!("from_slice in order {:?} gives {} points instead of {}", perm, s2.len(), set.len()));
                break;
            }
        }
        for perm in [[0, 2, 1], [1, 0, 2], [1, 2, 0], [2, 0, 1], [2, 1, 0]] {
            let s2 = tri_set(&[v[perm[0]], v[perm[1]], v[perm[2]]]);
            if s2 != set {
                obs.fail("independent-of-vertex-order", format!("order {:?} gives {} points instead of {}", perm, s2.len(), set.len()));
                break;
            }
        }
        obs.class("all-six-orders");
    }
    // every edge's line (in at least one direction) lies in the triangle: a neighbour sharing the edge has the same pixels there
    let edges = [(0, 1), (1, 2), (2, 0)];
    if area2 != 0 {
        for (i, j) in edges {
            let f = line_pts(v[i], v[j]);
            let r = line_pts(v[j], v[i]);
            if !(f.iter().all(|q| set.contains(q)) || r.iter().all(|q| set.contains(q))) {
                obs.fail("edge-line-lies-in-the-triangle", format!("edge {:?}-{:?}: neither direction of its line is covered", v[i], v[j]));
            }
        }
    }
    // one-pixel outline: its three edge lines (direction-agnostic reading), every alignment
    for al in [StrokeAlignment::Center, StrokeAlignment::Inside, StrokeAlignment::Outside] {
        let st = PrimitiveStyleBuilder::new().stroke_color(BinaryColor::On).stroke_width(1).stroke_alignment(al).build();
        let o: Pts = t.into_styled(st).pixels().map(|p| (p.0.x, p.0.y)).collect();
        let mut both = Pts::new();
        let mut covered = true;
        for (i, j) in edges {
            let f = line_pts(v[i], v[j]);
            let r = line_pts(v[j], v[i]);
            if !(f.iter().all(|q| o.contains(q)) || r.iter().all(|q| o.contains(q))) {
                covered = false;
            }
            both.extend(f);
            both.extend(r);
        }
        if !covered {
            obs.fail("one-pixel-outline-contains-its-edge-lines", format!("{:?}: an edge line is missing from the outline in both directions", al));
        }
        if let Some(q) = o.iter().find(|q| !both.contains(q)) {
            obs.fail("one-pixel-outline-consists-of-edge-lines", format!("{:?}: outline pixel {:?} is on no edge line", al, q));
        }
    }
}

fn check_shared(a: P2, b: P2, c: P2, d: P2, obs: &mut Obs) {
    let t1 = tri_set(&[a, b, c]);
    let t2 = tri_set(&[a, b, d]);
    obs.outcome(&(&t1, &t2));
    obs.mark_nontrivial();
    obs.class("shared-edge-pair");
    let common: Pts = t1.intersection(&t2).copied().collect();
    let f = line_pts(a, b);
    let r = line_pts(b, a);
    if !(f.iter().all(|q| common.contains(q)) || r.iter().all(|q| common.contains(q))) {
        obs.fail("same-pixels-along-the-shared-edge", format!("no direction of the line {:?}-{:?} lies in both triangles", a, b));
    }
    let xs = [a.0, b.0, c.0, d.0];
    let ys = [a.1, b.1, c.1, d.1];
    for y in *ys.iter().min().unwrap()..=*ys.iter().max().unwrap() {
        for x in *xs.iter().min().unwrap()..=*xs.iter().max().unwrap() {
            let p = (x, y);
            if (inside(p, &[a, b, c]) || inside(p, &[a, b, d])) && !(t1.contains(&p) || t2.contains(&p)) {
                obs.fail("no-gap-between-triangles-sharing-an-edge", format!("{:?} is covered by neither triangle", p));
                return;
            }
        }
    }
}

fn check_poly(v: &[P2], obs: &mut Obs) {
    let pts: Vec<Point> = v.iter().map(|p| pt(*p)).collect();
    let pl = Polyline::new(&pts);
    let got: Vec<P2> = pl.points().map(|p| (p.x, p.y)).collect();
    if got.len() <= 60 {
        iter_protocol("Polyline::points()", 60, || pl.points(), obs);
    }
    let mut exp: Vec<P2> = vec![];
    if v.len() >= 2 {
        for (i, w) in v.windows(2).enumerate() {
            let l = line_pts(w[0], w[1]);
            if i == 0 {
                exp.extend(l);
            } else {
                exp.extend(l.into_iter().skip(1));
            }
        }
    }
    obs.outcome(&got);
    obs.nontrivial_if(!exp.is_empty());
    obs.class("polyline");
    obs.class_if(v.windows(2).any(|w| w[0] == w[1]), "repeated-vertex");
    obs.class_if(v.windows(3).any(|w| w[0] == w[2] && w[0] != w[1]), "reversal");
    obs.class_if(v.len() < 2, "fewer-than-two-vertices");
    if got != exp {
        obs.fail("polyline-points==segment-lines-with-joints-once", format!("{} points, expected {}: got {:?} expected {:?}", got.len(), exp.len(), &got[..got.len().min(12)], &exp[..exp.len().min(12)]));
    }
    let st: Vec<P2> = pl.into_styled(PrimitiveStyle::with_stroke(BinaryColor::On, 1)).pixels().map(|p| (p.0.x, p.0.y)).collect();
    let (ss, es): (Pts, Pts) = (st.iter().copied().collect(), exp.iter().copied().collect());
    if ss != es {
        obs.fail("one-pixel-polyline==union-of-segment-lines", format!("{} vs {} distinct pixels", ss.len(), es.len()));
    }
    if st.len() != exp.len() {
        obs.fail("one-pixel-polyline-emits-joints-once", format!("{} pixels emitted, {} expected", st.len(), exp.len()));
    }
    // the same polyline moved far away with translate() and drawn with draw(): on an unbounded target and on a target
    // whose bounding box surrounds the moved polyline (and not the untranslated vertices) the union of the moved
    // segment lines arrives; points() moves along
    if !exp.is_empty() {
        use embedded_graphics::primitives::Rectangle;
        let d = Point::new(200, -150);
        let moved = pl.translate(d);
        let want: Pts = es.iter().map(|(x, y)| (x + d.x, y + d.y)).collect();
        let mp: Pts = moved.points().map(|p| (p.x, p.y)).collect();
        if mp != want {
            obs.fail("translated-polyline-points-move-along", format!("{} points after translate, {} expected", mp.len(), want.len()));
        }
        // moved once more, this time in place (translate_mut on an already translated polyline)
        {
            let d2 = Point::new(-13, 9);
            let mut twice = moved;
            twice.translate_mut(d2);
            let tp: Pts = twice.points().map(|p| (p.x, p.y)).collect();
            let want2: Pts = want.iter().map(|(x, y)| (x + d2.x, y + d2.y)).collect();
            if tp != want2 || twice != moved.translate(d2) {
                obs.fail("translated-polyline-points-move-along", format!("translate({:?}) then translate_mut({:?}): {} points, {} expected; equals translate twice: {}", (d.x, d.y), (d2.x, d2.y), tp.len(), want2.len(), twice == moved.translate(d2)));
            }
        }
        let styled = moved.into_styled(PrimitiveStyle::with_stroke(BinaryColor::On, 1));
        let sp: Pts = styled.pixels().map(|p| (p.0.x, p.0.y)).collect();
        if sp != want {
            obs.fail("one-pixel-polyline==union-of-segment-lines", format!("translate({:?}): pixels() yields {} distinct pixels, {} expected; first difference {:?}", (d.x, d.y), sp.len(), want.len(), sp.symmetric_difference(&want).next()));
        }
        let bb = moved.bounding_box();
        let win = Rectangle::new(bb.top_left - Point::new(1, 1), bb.size + Size::new(2, 2));
        for tb in [None, Some(win)] {
            let mut t = match tb {
                None => egverif::targets::RecD::<BinaryColor>::new(),
                Some(b) => egverif::targets::RecD::<BinaryColor>::with_box(b),
            };
            styled.draw(&mut t).unwrap();
            let got: Pts = t.map.keys().copied().collect();
            obs.class_if(tb.is_some(), "translated-polyline-through-a-target-window");
            if got != want {
                obs.fail("drawn-one-pixel-polyline==union-of-segment-lines", format!("translate({:?}), target box {:?}: {} pixels drawn, {} expected", (d.x, d.y), tb.map(|b| egverif::targets::rt(&b)), got.len(), want.len()));
            }
        }
    }
}

fn check(c: &Case, obs: &mut Obs) {
    match c {
        Case::Tri { v, orders } => check_tri(v, *orders, obs),
        Case::Shared { a, b, c, d } => check_shared(*a, *b, *c, *d, obs),
        Case::Poly { v } => check_poly(v, obs),
    }
}

fn grid(g: i32, stride: i32, ox: i32, oy: i32) -> Vec<P2> {
    (0..g * g).map(|i| ((i % g) * stride + ox, (i / g) * stride + oy)).collect()
}

fn tri_cases(tier: Tier) -> Vec<Case> {
    let mut v = vec![];
    let g = grid(tier.pick(7, 9), 1, -4, -4);
    for (ia, a) in g.iter().enumerate() {
        for (ib, b) in g.iter().enumerate() {
            for (ic, c) in g.iter().enumerate() {
                // the six orders of a vertex set are compared once per set (a <= b <= c by index)
                v.push(Case::Tri { v: [*a, *b, *c], orders: ia <= ib && ib <= ic });
            }
        }
    }
    // larger triangles: boundary-value product (replaces "random larger ones")
    let vals: &[i32] = if tier.is_thorough() { &[-60, -17, -2, -1, 0, 1, 3, 23, 64] } else { &[-41, -7, -1, 0, 2, 23, 50] };
    let big: Vec<P2> = vals.iter().flat_map(|x| vals.iter().map(move |y| (*x, *y))).collect();
    let step = tier.pick(3, 2);
    for (i, a) in big.iter().enumerate().step_by(step) {
        for (j, b) in big.iter().enumerate().skip(i).step_by(2) {
            for c in big.iter().skip(j).step_by(2) {
                v.push(Case::Tri { v: [*a, *b, *c], orders: true });
            }
        }
    }
    // a few large, thin triangles (coordinates far beyond the grids; area kept small so that the box scan stays cheap)
    for t in [[(-3000, -7), (2999, 5), (0, 9)], [(-20000, 3), (20000, 4), (1, -2)]] {
        v.push(Case::Tri { v: t, orders: true });
    }
    v
}

fn shared_cases(tier: Tier) -> Vec<Case> {
    let mut v = vec![];
    let g = if tier.is_thorough() { grid(5, 2, -4, -3) } else { grid(4, 2, -3, -3) };
    for a in &g {
        for b in &g {
            if a == b {
                continue;
            }
            for c in &g {
                if orient(*a, *b, *c) <= 0 {
                    continue;
                }
                for d in &g {
                    if orient(*a, *b, *d) < 0 {
                        v.push(Case::Shared { a: *a, b: *b, c: *c, d: *d });
                    }
                }
            }
        }
    }
    v
}

fn poly_cases(tier: Tier) -> Vec<Case> {
    let g = grid(3, 1, 0, 0).into_iter().map(|(x, y)| (x * 3 - 3, y * 2 - 2)).collect::<Vec<_>>();
    let mut out = vec![Case::Poly { v: vec![] }];
    let mut level: Vec<Vec<P2>> = vec![vec![]];
    for _ in 0..tier.pick(5, 7) {
        let mut next = vec![];
        for s in &level {
            for p in &g {
                let mut t = s.clone();
                t.push(*p);
                next.push(t);
            }
        }
        out.extend(next.iter().map(|v| Case::Poly { v: v.clone() }));
        level = next;
    }
    // longer segments
    for v in [vec![(-40, 3), (17, -9), (17, 30), (-2, 30), (-40, 3)], vec![(0, 0), (100, 1), (0, 2), (100, 3)], vec![(5, 5), (5, 5), (5, 5)]] {
        out.push(Case::Poly { v });
    }
    out
}

fn run_part(run: &mut Run) {
    let tier = run.tier;
    match run.part.as_str() {
        "triangles" => {
            run.sweep_vec("triangles", "all vertex triples of a 7x7 grid (thorough 9x9) incl. colinear and coincident vertices, all six vertex orders per vertex set, plus a boundary-value product of larger triangles", || tri_cases(tier), check);
            run.sweep_vec("shared-edges", "all (A,B,C,D) on a 4x4 grid stride 2 (thorough 5x5) with C and D strictly on opposite sides of AB", || shared_cases(tier), check);
        }
        "polylines" => run.sweep_vec("polylines", "all polylines with 0..=5 (thorough 7) vertices on a 3x3 grid, incl. repeated vertices and reversals, plus three long ones", || poly_cases(tier), check),
        p => panic!("unknown part {p}"),
    }
}

fn main() {
    egverif::fw::main(Prop {
        id: "C19",
        level: "exploration",
        rule: "every vertex triple / quadruple / polyline of the listed finite grids once; non-trivial = the shape has points; triangles: every lattice point of the closed mathematical triangle (exact orientation test, box grown by 2) is covered, every covered point is inside or within 1 px (+1e-9) of an edge segment, all six vertex orders give the same set, every edge's Bresenham line lies in the triangle in at least one direction, the 1-px outline (3 alignments) contains each edge line in at least one direction and consists only of pixels of edge lines; pairs sharing an edge: a direction of the edge line lies in both, no lattice point of either closed triangle is uncovered; polylines: points() equals the concatenated segment lines with each joint once, the 1-px stroke has the same pixels and count",
        assumptions: &["'random larger triangles' are replaced by a deterministic boundary-value product", "outline and shared-edge clauses use the direction-agnostic reading (the statement does not fix a rasterisation direction)"],
        parts: |_| vec![PartSpec::new("triangles", "verif"), PartSpec::new("polylines", "verif")],
        run_part,
        required_classes: |_| vec!["triangle", "colinear", "coincident-vertices", "clockwise", "counter-clockwise", "all-six-orders", "shared-edge-pair", "polyline", "repeated-vertex", "reversal", "fewer-than-two-vertices", "translated-polyline-through-a-target-window"],
        crash_is_verdict: false,
    })
}
