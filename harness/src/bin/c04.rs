//! C04 Target errors stop drawing immediately and are returned unchanged
//! Fault enumeration: for every drawable × adapter stack × target flavour, n = number of calls on
//! the underlying target in the fault-free run, then every k in 1..=n is made to fail.
use egverif::catalog::*;
use egverif::fw::*;
use egverif::imgs::*;
use egverif::targets::*;
use egverif::texts::*;
use egverif::{with_image, with_styled};
use embedded_graphics::draw_target::{DrawTarget, DrawTargetExt};
use embedded_graphics::image::{Image, ImageDrawable};
use embedded_graphics::pixelcolor::{PixelColor, Rgb565, Rgb888};
use embedded_graphics::prelude::*;
use embedded_graphics::primitives::StrokeStyle;
use embedded_graphics::text::renderer::TextRenderer;
use serde::{Deserialize, Serialize};

type TC = Rgb565; // colour of the underlying target

#[derive(Clone, Debug, PartialEq, Eq, Hash, Serialize, Deserialize)]
enum Drw {
    Prim { shape: Shape, sty: Sty, dotted: bool },
    Img(ImgCase),
    Text(TextCase),
    Whitespace { font: String, width: u32, bg: bool, underline: u8, strike: u8 },
    /// text in a synthetic font with character spacing: (cw, ch, spacing), string, index into deco16()
    CustomText { font: (u32, u32, u32), text: String, deco: u8 },
    Pixel { at: P2 },
    PixelIter { n: u32 },
}

#[derive(Clone, Debug, PartialEq, Eq, Hash, Serialize, Deserialize)]
struct Case {
    d: Drw,
    /// 0 none, 1 clipped, 2 translated, 3 cropped, 4 color_converted over clipped (drawable in Rgb888),
    /// 5 clipped over translated over cropped
    adapter: u8,
}

const CLIP: (i32, i32, u32, u32) = (-1, -2, 7, 7);
const CROP: (i32, i32, u32, u32) = (-3, -4, 30, 30);
const SHIFT: (i32, i32) = (2, -1);

fn draw_same<D: Drawable, T: DrawTarget<Color = D::Color, Error = Fault>>(d: &D, t: &mut T, adapter: u8) -> Result<D::Output, Fault> {
    match adapter {
        0 => d.draw(t),
        1 => d.draw(&mut t.clipped(&rect(CLIP.0, CLIP.1, CLIP.2, CLIP.3))),
        2 => d.draw(&mut t.translated(Point::new(SHIFT.0, SHIFT.1))),
        3 => d.draw(&mut t.cropped(&rect(CROP.0, CROP.1, CROP.2, CROP.3))),
        5 => d.draw(&mut t.cropped(&rect(CROP.0, CROP.1, CROP.2, CROP.3)).translated(Point::new(SHIFT.0, SHIFT.1)).clipped(&rect(CLIP.0, CLIP.1, CLIP.2 + 3, CLIP.3))),
        _ => unreachable!(),
    }
}
fn draw_conv<D: Drawable, T: DrawTarget<Error = Fault>>(d: &D, t: &mut T) -> Result<D::Output, Fault>
where
    D::Color: Into<T::Color>,
{
    d.draw(&mut t.clipped(&rect(CLIP.0, CLIP.1, CLIP.2, CLIP.3)).color_converted::<D::Color>())
}

/// `$draw` is evaluated with `$t` bound to a fresh logging target; for both flavours: the
/// fault-free run, then every k.
macro_rules! fault_enum {
    ($obs:expr, $CT:ty, |$t:ident| $draw:expr) => {{
        fault_enum!(@one $obs, $CT, false, "default", |$t| $draw);
        fault_enum!(@one $obs, $CT, true, "native", |$t| $draw);
    }};
    (@one $obs:expr, $CT:ty, $n:literal, $flavour:expr, |$t:ident| $draw:expr) => {{
        let mut $t = Rec::<$CT, $n>::new().logging();
        let r0 = $draw;
        let base_log = std::mem::take(&mut $t.log);
        let n = $t.ncalls;
        if r0.is_err() {
            $obs.fail("fault-free-run-succeeds", format!("{} flavour: draw returned {:?} without a fault", $flavour, r0.as_ref().err()));
        }
        $obs.outcome(&base_log);
        $obs.nontrivial_if(n > 0);
        $obs.count("fault_runs", n as u64);
        $obs.count("fault_free_runs", 1);
        $obs.max("max_calls_per_run", n as u64);
        $obs.class_if(n >= 3, "three-or-more-calls");
        if $n {
            $obs.class_if(base_log.iter().any(|c| matches!(c, Call::FillContiguous { .. })), "native-fill_contiguous");
            $obs.class_if(base_log.iter().any(|c| matches!(c, Call::FillSolid { .. })), "native-fill_solid");
        }
        $obs.class_if(base_log.iter().any(|c| matches!(c, Call::DrawIter(_))), "draw_iter");
        for k in 1..=n {
            let mut $t = Rec::<$CT, $n>::new().logging().failing_at(k);
            let r = $draw;
            match &r {
                Err(Fault(j)) if *j == k => {}
                other => $obs.fail("returns-exactly-the-target-error", format!("{} flavour, fault at call {k}/{n}: draw returned {:?}", $flavour, other.as_ref().map(|_| "Ok").map_err(|e| *e))),
            }
            if $t.calls_after_fault > 0 || $t.ncalls != k {
                $obs.fail("no-call-after-the-failure", format!("{} flavour, fault at call {k}/{n}: {} calls were made ({} after the failure)", $flavour, $t.ncalls, $t.calls_after_fault));
            }
            if $t.log.len() != k - 1 || $t.log[..] != base_log[..($t.log.len().min(k - 1)).min(base_log.len())] || $t.log.len() > base_log.len() {
                $obs.fail("calls-before-failure-equal-fault-free-run", format!("{} flavour, fault at call {k}/{n}: {} calls logged before the failure, or they differ from the fault-free run", $flavour, $t.log.len()));
            }
            if let Some((kind, area)) = $t.fault_call {
                let want = &base_log[k - 1];
                let want_area = match want {
                    Call::FillContiguous { area, .. } | Call::FillSolid { area, .. } => Some(*area),
                    _ => None,
                };
                if kind != want.kind() || area != want_area {
                    $obs.fail("failing-call-is-the-kth-call-of-the-fault-free-run", format!("{} flavour, k={k}: failing call {kind} {:?}, fault-free call {} {:?}", $flavour, area, want.kind(), want_area));
                }
            }
        }
    }};
}

fn run_drawable<D: Drawable>(d: &D, adapter: u8, obs: &mut Obs)
where
    D::Color: PixelColor + std::hash::Hash + core::fmt::Debug,
    D::Output: core::fmt::Debug,
{
    fault_enum!(obs, D::Color, |t| draw_same(d, &mut t, adapter));
}
fn run_drawable_conv<D: Drawable<Color = Rgb888>>(d: &D, obs: &mut Obs)
where
    D::Output: core::fmt::Debug,
{
    fault_enum!(obs, TC, |t| draw_conv(d, &mut t));
}

struct WhiteSpace<'a, C: TestColor> {
    style: embedded_graphics::mono_font::MonoTextStyle<'a, C>,
    width: u32,
}
impl<C: TestColor> Drawable for WhiteSpace<'_, C> {
    type Color = C;
    type Output = Point;
    fn draw<D: DrawTarget<Color = C>>(&self, target: &mut D) -> Result<Point, D::Error> {
        self.style.draw_whitespace(self.width, Point::new(1, 4), embedded_graphics::text::Baseline::Alphabetic, target)
    }
}

struct PixelIter {
    n: u32,
}
impl Drawable for PixelIter {
    type Color = TC;
    type Output = ();
    fn draw<D: DrawTarget<Color = TC>>(&self, target: &mut D) -> Result<(), D::Error> {
        // the Drawable impl for pixel iterators
        use embedded_graphics::iterator::PixelIteratorExt;
        (0..self.n).map(|i| Pixel(Point::new(i as i32 - 2, (i * 3 % 5) as i32 - 1), TC::STROKE)).draw(target)
    }
}

fn img_run<I: ImageDrawable>(img: &I, case: &ImgCase, adapter: u8, obs: &mut Obs)
where
    I::Color: std::hash::Hash + core::fmt::Debug,
{
    let at = Point::new(case.at.0, case.at.1);
    let image = if case.center { Image::with_center(img, at) } else { Image::new(img, at) };
    run_drawable(&image, adapter, obs);
}

fn check(case: &Case, obs: &mut Obs) {
    obs.class(match case.adapter {
        0 => "adapter-none",
        1 => "adapter-clipped",
        2 => "adapter-translated",
        3 => "adapter-cropped",
        4 => "adapter-color_converted-over-clipped",
        _ => "adapter-nested-3",
    });
    match &case.d {
        Drw::Prim { shape, sty, dotted } => {
            obs.class(shape.kind());
            obs.class_if(*dotted, "dotted-rectangle");
            if case.adapter == 4 {
                let mut st = sty.build::<Rgb888>();
                if *dotted {
                    st.stroke_style = StrokeStyle::Dotted;
                }
                with_styled!(shape, st, Rgb888, |s| run_drawable_conv(&s, obs))
            } else {
                let mut st = sty.build::<TC>();
                if *dotted {
                    st.stroke_style = StrokeStyle::Dotted;
                }
                with_styled!(shape, st, TC, |s| run_drawable(&s, case.adapter, obs))
            }
        }
        Drw::Img(ic) => {
            obs.class(if ic.sub.is_some() { "sub-image" } else { "image" });
            with_image!(ic, IC, |img| img_run(img, ic, case.adapter, obs), panic!("bad image"))
        }
        Drw::Text(tc) => {
            obs.class("text");
            if case.adapter == 4 {
                run_drawable_conv(&tc.build::<Rgb888>(), obs)
            } else {
                run_drawable(&tc.build::<TC>(), case.adapter, obs)
            }
        }
        Drw::CustomText { font, text, deco } => {
            obs.class("text-in-font-with-spacing");
            let (tc, bg, ul, st) = deco16()[*deco as usize];
            with_custom_font(font.0, font.1, font.2, 3, |f| {
                if case.adapter == 4 {
                    let t = embedded_graphics::text::Text::new(text, Point::new(1, 5), char_style::<Rgb888>(f, tc, bg, ul, st));
                    run_drawable_conv(&t, obs)
                } else {
                    let t = embedded_graphics::text::Text::new(text, Point::new(1, 5), char_style::<TC>(f, tc, bg, ul, st));
                    run_drawable(&t, case.adapter, obs)
                }
            })
        }
        Drw::Whitespace { font, width, bg, underline, strike } => {
            obs.class("draw_whitespace");
            let f = font_by_name(font).unwrap();
            if case.adapter == 4 {
                run_drawable_conv(&WhiteSpace { style: char_style::<Rgb888>(f, true, *bg, *underline, *strike), width: *width }, obs)
            } else {
                run_drawable(&WhiteSpace { style: char_style::<TC>(f, true, *bg, *underline, *strike), width: *width }, case.adapter, obs)
            }
        }
        Drw::Pixel { at } => {
            obs.class("pixel");
            if case.adapter == 4 {
                run_drawable_conv(&Pixel(Point::new(at.0, at.1), Rgb888::STROKE), obs)
            } else {
                run_drawable(&Pixel(Point::new(at.0, at.1), TC::STROKE), case.adapter, obs)
            }
        }
        Drw::PixelIter { n } => {
            obs.class("pixel-iterator");
            if case.adapter != 4 {
                run_drawable(&PixelIter { n: *n }, case.adapter, obs)
            }
        }
    }
}

fn drawables(tier: Tier) -> Vec<Drw> {
    let t = tier.is_thorough();
    let mut v = vec![];
    let (x, y) = (-2, -3);
    let mut shapes = vec![];
    let sizes: &[u32] = if t { &[0, 1, 2, 3, 5, 8, 11] } else { &[1, 4, 9] };
    for &s in sizes {
        shapes.push(Shape::Rect { x, y, w: s, h: s + 1 });
        shapes.push(Shape::Circle { x, y, d: s });
        shapes.push(Shape::Ellipse { x, y, w: s + 2, h: s });
        shapes.push(Shape::rrect_eq(x, y, s + 3, s + 2, (2, 3)));
        shapes.push(Shape::RRect { x, y, w: s + 3, h: s + 2, tl: (0, 0), tr: (1, 3), br: (5, 5), bl: (3, 1) });
        shapes.push(Shape::Tri { a: (x, y), b: (x + s as i32 + 3, y + 4), c: (x + 2, y + s as i32 + 2) });
        shapes.push(Shape::Line { a: (x, y), b: (x + s as i32, y + 4) });
        shapes.push(Shape::Arc { x, y, d: s + 3, start: 80, sweep: 800 });
        shapes.push(Shape::Sector { x, y, d: s + 3, start: 80, sweep: 800 });
        shapes.push(Shape::Sector { x, y, d: s + 3, start: -120, sweep: -400 });
        let pts = vec![(x, y), (x + 8, y + 4), (x + 2, y + s as i32 + 6), (x + 7, y + 12), (x + 7, y + 12), (x, y)];
        for n in [0, 1, 2, 3, 4, 6] {
            shapes.push(Shape::Polyline { pts: pts[..n].to_vec(), tx: 0, ty: 0 });
            shapes.push(Shape::Polyline { pts: pts[..n].to_vec(), tx: 2, ty: 1 });
        }
    }
    if t {
        // every triangle of a small grid (all scanline shapes)
        shapes.extend(tri_grid(3, 3, -3, -2));
    }
    let mut stys = styles(tier.pick(3, 5));
    for w in [6u32, 9] {
        for al in 0..3u8 {
            stys.push(Sty { fill: false, stroke: true, w, al, same: false });
            stys.push(Sty { fill: true, stroke: true, w, al, same: false });
        }
    }
    for s in &shapes {
        for st in &stys {
            v.push(Drw::Prim { shape: s.clone(), sty: *st, dotted: false });
        }
    }
    // dotted rectangles: small and large dots (stroke widths up to 9), low / tall / degenerate
    for (w, h) in [(12, 9), (3, 3), (1, 7), (0, 4), (9, 2), (12, 28), (30, 30), (41, 17), (8, 8), (5, 40)] {
        for sw in 1..=9u32 {
            for al in 0..3u8 {
                for fill in [false, true] {
                    v.push(Drw::Prim { shape: Shape::Rect { x, y, w, h }, sty: Sty { fill, stroke: true, w: sw, al, same: false }, dotted: true });
                }
            }
        }
    }
    // text in fonts with character spacing (gap fills between characters)
    for font in [(5u32, 7u32, 1u32), (3, 2, 2), (6, 9, 4)] {
        for text in ["AB", "a", "abc\nde", "a b\n\nc"] {
            for deco in 0..16u8 {
                v.push(Drw::CustomText { font, text: text.replace("\\n", "\n"), deco });
            }
        }
    }
    for bpp in [1u8, 8, 16, 24] {
        for (w, h) in [(3, 4), (0, 2), (5, 1)] {
            let data = pattern(0, required_len(w, h, bpp));
            for sub in [None, Some((1, 1, 2, 2)), Some((-1, 0, 9, 2)), Some((7, 7, 1, 1))] {
                v.push(Drw::Img(ImgCase { bpp, be: false, w, h, data: data.clone(), sub, sub2: None, at: (1, 2), center: false }));
            }
            v.push(Drw::Img(ImgCase { bpp, be: true, w, h, data: data.clone(), sub: Some((0, 0, 3, 3)), sub2: Some((1, 0, 2, 2)), at: (0, 0), center: true }));
        }
    }
    let fonts = [font_index("ascii::FONT_6X9"), font_index("iso_8859_1::FONT_10X20")];
    for tc in text_catalogue(&fonts[..tier.pick(1, 2)], &["", "a", "ab\ncd\r\ne", "x\n\ny", "\u{1F600}q"], &[(1, 100), (0, 3)], (1, 5)) {
        if tc.baseline == 3 || t {
            v.push(Drw::Text(tc));
        }
    }
    for width in [0, 1, 7, 20] {
        for (bg, ul, st) in [(false, 0, 0), (true, 0, 0), (true, 2, 1), (false, 1, 2), (false, 2, 0)] {
            v.push(Drw::Whitespace { font: "ascii::FONT_6X9".into(), width, bg, underline: ul, strike: st });
        }
    }
    v.push(Drw::Pixel { at: (0, 0) });
    v.push(Drw::Pixel { at: (-50, 3) });
    for n in [0, 1, 5] {
        v.push(Drw::PixelIter { n });
    }
    v
}

fn run_part(run: &mut Run) {
    let tier = run.tier;
    if run.part == "catalogue" {
        // the whole shape catalogue (all sizes, radii, angles) x S(2) x three adapter stacks
        run.sweep_vec(
            "catalogue-x-adapters",
            "the complete shape catalogue (rectangles, circles, ellipses, rounded rectangles with equal and unequal radii, lines, arcs, sectors) and all triangles of a 4x4 grid x S(2) x adapter stacks {none, nested-3} (thorough: all five same-colour stacks)",
            || {
                let mut shapes = shape_catalogue(false, (-2, -3));
                shapes.extend(tri_grid(4, 2, -3, -2));
                let mut v = vec![];
                for s in shapes {
                    for sty in styles(2) {
                        for &adapter in if tier.is_thorough() { &[0u8, 1, 2, 3, 5][..] } else { &[0u8, 5][..] } {
                            v.push(Case { d: Drw::Prim { shape: s.clone(), sty, dotted: false }, adapter });
                        }
                    }
                }
                v
            },
            check,
        );
        return;
    }
    run.sweep_vec(
        "drawables-x-adapters",
        "reduced drawable catalogue (every primitive kind x sizes x S(3/5), dotted rectangles, thin/thick/translated polylines, images, sub-images, decorated multi-line text, draw_whitespace, Pixel, pixel iterators) x 6 adapter stacks; inside each case: both target flavours, the fault-free run and one run per k in 1..=n",
        || {
            let mut v = vec![];
            for d in drawables(tier) {
                for adapter in 0..=5u8 {
                    if matches!(d, Drw::Img(_) | Drw::PixelIter { .. }) && adapter == 4 {
                        continue;
                    }
                    v.push(Case { d: d.clone(), adapter });
                }
            }
            v
        },
        check,
    );
}

fn main() {
    egverif::fw::main(Prop {
        id: "C04",
        level: "fault_enumeration",
        rule: "one case = (drawable, adapter stack); for both target flavours the fault-free run gives n calls, then for every k in 1..=n the run whose k-th call fails is executed (counter fault_runs); non-trivial = the fault-free run makes at least one call; checked per faulty run: draw returns exactly Err(Fault(k)), no further call, the k-1 earlier calls equal the fault-free ones (kind, area, pixels/colours), the failing call has the kind and area of the k-th fault-free call",
        assumptions: &["one fault per execution (a second one is unreachable if the property holds, and 'no further call' is itself checked)", "bounded to the listed drawables and adapter stacks"],
        parts: |_| vec![PartSpec::new("all", "verif"), PartSpec::new("catalogue", "verif")],
        run_part,
        required_classes: |_| vec!["adapter-none", "adapter-clipped", "adapter-translated", "adapter-cropped", "adapter-color_converted-over-clipped", "adapter-nested-3", "rect", "circle", "ellipse", "rrect", "triangle", "line", "arc", "sector", "polyline", "dotted-rectangle", "image", "sub-image", "text", "text-in-font-with-spacing", "draw_whitespace", "pixel", "pixel-iterator", "three-or-more-calls", "native-fill_contiguous", "native-fill_solid", "draw_iter"],
        crash_is_verdict: false,
    })
}
