//! Plain-data descriptions of drawables (serialisable, hashable) and their construction as real
//! embedded-graphics objects.  The `with_styled!` macro expands a body once per primitive type
//! (the `StyledPixels` trait is not exported, so generic code cannot name `pixels()`).

use embedded_graphics::{
    geometry::{Angle, Point, Size},
    pixelcolor::{BinaryColor, Gray8, PixelColor, Rgb565, Rgb888},
    prelude::*,
    primitives::*,
};
use serde::{Deserialize, Serialize};
use std::hash::Hash;

pub type P2 = (i32, i32);

#[derive(Clone, Debug, PartialEq, Eq, Hash, Serialize, Deserialize)]
pub enum Shape {
    Rect { x: i32, y: i32, w: u32, h: u32 },
    Circle { x: i32, y: i32, d: u32 },
    Ellipse { x: i32, y: i32, w: u32, h: u32 },
    /// corner radii: top-left, top-right, bottom-right, bottom-left as (w, h)
    RRect { x: i32, y: i32, w: u32, h: u32, tl: (u32, u32), tr: (u32, u32), br: (u32, u32), bl: (u32, u32) },
    Tri { a: P2, b: P2, c: P2 },
    Line { a: P2, b: P2 },
    /// angles in quarter degrees
    Arc { x: i32, y: i32, d: u32, start: i32, sweep: i32 },
    Sector { x: i32, y: i32, d: u32, start: i32, sweep: i32 },
    Polyline { pts: Vec<P2>, tx: i32, ty: i32 },
}

pub fn pt(p: P2) -> Point {
    Point::new(p.0, p.1)
}
pub fn sz(s: (u32, u32)) -> Size {
    Size::new(s.0, s.1)
}
pub fn qdeg(q: i32) -> Angle {
    Angle::from_degrees(q as f32 / 4.0)
}

impl Shape {
    pub fn kind(&self) -> &'static str {
        match self {
            Shape::Rect { .. } => "rect",
            Shape::Circle { .. } => "circle",
            Shape::Ellipse { .. } => "ellipse",
            Shape::RRect { .. } => "rrect",
            Shape::Tri { .. } => "triangle",
            Shape::Line { .. } => "line",
            Shape::Arc { .. } => "arc",
            Shape::Sector { .. } => "sector",
            Shape::Polyline { .. } => "polyline",
        }
    }
    pub fn rrect_eq(x: i32, y: i32, w: u32, h: u32, r: (u32, u32)) -> Shape {
        Shape::RRect { x, y, w, h, tl: r, tr: r, br: r, bl: r }
    }
    pub fn is_closed(&self) -> bool {
        matches!(self, Shape::Rect { .. } | Shape::Circle { .. } | Shape::Ellipse { .. } | Shape::RRect { .. })
    }
    /// same shape moved by moving its anchoring points (polyline: its vertices)
    pub fn moved(&self, dx: i32, dy: i32) -> Shape {
        let m = |p: &P2| (p.0 + dx, p.1 + dy);
        match self.clone() {
            Shape::Rect { x, y, w, h } => Shape::Rect { x: x + dx, y: y + dy, w, h },
            Shape::Circle { x, y, d } => Shape::Circle { x: x + dx, y: y + dy, d },
            Shape::Ellipse { x, y, w, h } => Shape::Ellipse { x: x + dx, y: y + dy, w, h },
            Shape::RRect { x, y, w, h, tl, tr, br, bl } => Shape::RRect { x: x + dx, y: y + dy, w, h, tl, tr, br, bl },
            Shape::Tri { a, b, c } => Shape::Tri { a: m(&a), b: m(&b), c: m(&c) },
            Shape::Line { a, b } => Shape::Line { a: m(&a), b: m(&b) },
            Shape::Arc { x, y, d, start, sweep } => Shape::Arc { x: x + dx, y: y + dy, d, start, sweep },
            Shape::Sector { x, y, d, start, sweep } => Shape::Sector { x: x + dx, y: y + dy, d, start, sweep },
            Shape::Polyline { pts, tx, ty } => Shape::Polyline { pts: pts.iter().map(m).collect(), tx, ty },
        }
    }
}

pub fn mk_rect(x: i32, y: i32, w: u32, h: u32) -> Rectangle {
    Rectangle::new(Point::new(x, y), Size::new(w, h))
}
pub fn mk_rrect(x: i32, y: i32, w: u32, h: u32, tl: (u32, u32), tr: (u32, u32), br: (u32, u32), bl: (u32, u32)) -> RoundedRectangle {
    RoundedRectangle::new(
        mk_rect(x, y, w, h),
        CornerRadii { top_left: sz(tl), top_right: sz(tr), bottom_right: sz(br), bottom_left: sz(bl) },
    )
}

/// Stroke alignment as a small integer: 0 Center, 1 Inside, 2 Outside
pub fn alignment(a: u8) -> StrokeAlignment {
    match a {
        0 => StrokeAlignment::Center,
        1 => StrokeAlignment::Inside,
        _ => StrokeAlignment::Outside,
    }
}

#[derive(Clone, Copy, Debug, PartialEq, Eq, Hash, Serialize, Deserialize)]
pub struct Sty {
    pub fill: bool,
    pub stroke: bool,
    pub w: u32,
    /// 0 Center, 1 Inside, 2 Outside
    pub al: u8,
    /// stroke colour equal to the fill colour (default: two different colours)
    #[serde(default, skip_serializing_if = "is_false")]
    pub same: bool,
}
fn is_false(b: &bool) -> bool {
    !*b
}
impl Sty {
    pub fn stroke_color<C: TestColor>(&self) -> C {
        if self.same {
            C::FILL
        } else {
            C::STROKE
        }
    }
    pub fn build<C: TestColor>(&self) -> PrimitiveStyle<C> {
        let mut b = PrimitiveStyleBuilder::new().stroke_width(self.w).stroke_alignment(alignment(self.al));
        if self.fill {
            b = b.fill_color(C::FILL);
        }
        if self.stroke {
            b = b.stroke_color(self.stroke_color::<C>());
        }
        b.build()
    }
    /// the other public ways to arrive at the same style: builder started from the style, setters in the opposite
    /// order, and the `with_fill` / `with_stroke` shortcuts where they apply; returns a description of a disagreement
    pub fn entry_points_disagree<C: TestColor>(&self) -> Option<String> {
        let st = self.build::<C>();
        let copy = PrimitiveStyleBuilder::from(&st).build();
        let mut b = PrimitiveStyleBuilder::new();
        if self.stroke {
            b = b.stroke_color(self.stroke_color::<C>());
        }
        if self.fill {
            b = b.fill_color(C::FILL);
        }
        let reordered = b.stroke_alignment(alignment(self.al)).stroke_width(self.w).build();
        // change and restore one field through a builder started from the style
        let restored = PrimitiveStyleBuilder::from(&PrimitiveStyleBuilder::from(&st).stroke_width(self.w + 1).build()).stroke_width(self.w).build();
        if copy != st || reordered != st || restored != st {
            return Some(format!("style {:?}; PrimitiveStyleBuilder::from(&style) {:?}; setters in another order {:?}; width changed and restored {:?}", st, copy, reordered, restored));
        }
        if self.fill && !self.stroke && self.w == 0 && self.al == 0 && PrimitiveStyle::with_fill(C::FILL) != st {
            return Some(format!("with_fill {:?} vs builder {:?}", PrimitiveStyle::with_fill(C::FILL), st));
        }
        if !self.fill && self.stroke && self.al == 0 && PrimitiveStyle::with_stroke(self.stroke_color::<C>(), self.w) != st {
            return Some(format!("with_stroke {:?} vs builder {:?}", PrimitiveStyle::with_stroke(self.stroke_color::<C>(), self.w), st));
        }
        None
    }
    /// inside/outside stroke widths by the documented rule
    pub fn in_out(&self) -> (u32, u32) {
        match self.al {
            1 => (self.w, 0),
            2 => (0, self.w),
            _ => ((self.w + 1) / 2, self.w / 2),
        }
    }
}

/// fill and stroke in the same colour: width 1..=W x 3 alignments
pub fn styles_same_color(max_w: u32) -> Vec<Sty> {
    let mut v = vec![];
    for w in 1..=max_w {
        for al in 0..3u8 {
            v.push(Sty { fill: true, stroke: true, w, al, same: true });
        }
    }
    v
}

/// S(W): fill∈{none,set} × stroke colour∈{none,set} × width 0..=W × 3 alignments (also at width 0: the alignment still selects code paths there)
pub fn styles(max_w: u32) -> Vec<Sty> {
    let mut v = vec![];
    for fill in [false, true] {
        for stroke in [false, true] {
            for w in 0..=max_w {
                for al in 0..3u8 {
                    v.push(Sty { fill, stroke, w, al, same: false });
                }
            }
        }
    }
    v
}

pub trait TestColor: PixelColor + Hash + core::fmt::Debug + Send + Sync + 'static {
    const FILL: Self;
    const STROKE: Self;
    const TEXT: Self;
    const BG: Self;
    const UNDER: Self;
    const STRIKE: Self;
    const NAME: &'static str;
}
impl TestColor for Rgb565 {
    const FILL: Self = Rgb565::GREEN;
    const STROKE: Self = Rgb565::RED;
    const TEXT: Self = Rgb565::WHITE;
    const BG: Self = Rgb565::BLUE;
    const UNDER: Self = Rgb565::YELLOW;
    const STRIKE: Self = Rgb565::MAGENTA;
    const NAME: &'static str = "Rgb565";
}
impl TestColor for Rgb888 {
    const FILL: Self = Rgb888::GREEN;
    const STROKE: Self = Rgb888::RED;
    const TEXT: Self = Rgb888::WHITE;
    const BG: Self = Rgb888::BLUE;
    const UNDER: Self = Rgb888::YELLOW;
    const STRIKE: Self = Rgb888::MAGENTA;
    const NAME: &'static str = "Rgb888";
}
impl TestColor for BinaryColor {
    const FILL: Self = BinaryColor::Off;
    const STROKE: Self = BinaryColor::On;
    const TEXT: Self = BinaryColor::On;
    const BG: Self = BinaryColor::Off;
    const UNDER: Self = BinaryColor::On;
    const STRIKE: Self = BinaryColor::Off;
    const NAME: &'static str = "BinaryColor";
}
impl TestColor for Gray8 {
    const FILL: Self = Gray8::new(0x55);
    const STROKE: Self = Gray8::new(0xAA);
    const TEXT: Self = Gray8::new(0xFF);
    const BG: Self = Gray8::new(0x11);
    const UNDER: Self = Gray8::new(0x77);
    const STRIKE: Self = Gray8::new(0x99);
    const NAME: &'static str = "Gray8";
}

/// Expands `$body` with `$s` bound to the concrete `Styled<P, PrimitiveStyle<$C>>` of the shape.
#[macro_export]
macro_rules! with_styled {
    ($shape:expr, $style:expr, $C:ty, |$s:ident| $body:expr) => {{
        use embedded_graphics::prelude::*;
        use embedded_graphics::primitives::*;
        use $crate::catalog::{mk_rect, mk_rrect, pt, qdeg, Shape};
        let __style: PrimitiveStyle<$C> = $style;
        match $shape {
            Shape::Rect { x, y, w, h } => {
                let $s = mk_rect(*x, *y, *w, *h).into_styled(__style);
                $body
            }
            Shape::Circle { x, y, d } => {
                let $s = Circle::new(Point::new(*x, *y), *d).into_styled(__style);
                $body
            }
            Shape::Ellipse { x, y, w, h } => {
                let $s = Ellipse::new(Point::new(*x, *y), Size::new(*w, *h)).into_styled(__style);
                $body
            }
            Shape::RRect { x, y, w, h, tl, tr, br, bl } => {
                let $s = mk_rrect(*x, *y, *w, *h, *tl, *tr, *br, *bl).into_styled(__style);
                $body
            }
            Shape::Tri { a, b, c } => {
                let $s = Triangle::new(pt(*a), pt(*b), pt(*c)).into_styled(__style);
                $body
            }
            Shape::Line { a, b } => {
                let $s = Line::new(pt(*a), pt(*b)).into_styled(__style);
                $body
            }
            Shape::Arc { x, y, d, start, sweep } => {
                let $s = Arc::new(Point::new(*x, *y), *d, qdeg(*start), qdeg(*sweep)).into_styled(__style);
                $body
            }
            Shape::Sector { x, y, d, start, sweep } => {
                let $s = Sector::new(Point::new(*x, *y), *d, qdeg(*start), qdeg(*sweep)).into_styled(__style);
                $body
            }
            Shape::Polyline { pts, tx, ty } => {
                let __v: Vec<Point> = pts.iter().map(|p| pt(*p)).collect();
                let $s = Polyline::new(&__v).translate(Point::new(*tx, *ty)).into_styled(__style);
                $body
            }
        }
    }};
}

/// Expands `$body` with `$p` bound to the concrete primitive (closed shapes + triangle + sector:
/// the ones offering both `points()` and `contains()`); other shapes evaluate `$other`.
#[macro_export]
macro_rules! with_area_primitive {
    ($shape:expr, |$p:ident| $body:expr, $other:expr) => {{
        use embedded_graphics::prelude::*;
        use embedded_graphics::primitives::*;
        use $crate::catalog::{mk_rect, mk_rrect, pt, qdeg, Shape};
        match $shape {
            Shape::Rect { x, y, w, h } => {
                let $p = mk_rect(*x, *y, *w, *h);
                $body
            }
            Shape::Circle { x, y, d } => {
                let $p = Circle::new(Point::new(*x, *y), *d);
                $body
            }
            Shape::Ellipse { x, y, w, h } => {
                let $p = Ellipse::new(Point::new(*x, *y), Size::new(*w, *h));
                $body
            }
            Shape::RRect { x, y, w, h, tl, tr, br, bl } => {
                let $p = mk_rrect(*x, *y, *w, *h, *tl, *tr, *br, *bl);
                $body
            }
            Shape::Tri { a, b, c } => {
                let $p = Triangle::new(pt(*a), pt(*b), pt(*c));
                $body
            }
            Shape::Sector { x, y, d, start, sweep } => {
                let $p = Sector::new(Point::new(*x, *y), *d, qdeg(*start), qdeg(*sweep));
                $body
            }
            _ => $other,
        }
    }};
}

/// Expands `$body` with `$p` bound to the concrete primitive, for every primitive type.
#[macro_export]
macro_rules! with_primitive {
    ($shape:expr, |$p:ident| $body:expr) => {{
        use embedded_graphics::prelude::*;
        use embedded_graphics::primitives::*;
        use $crate::catalog::{mk_rect, mk_rrect, pt, qdeg, Shape};
        match $shape {
            Shape::Rect { x, y, w, h } => {
                let $p = mk_rect(*x, *y, *w, *h);
                $body
            }
            Shape::Circle { x, y, d } => {
                let $p = Circle::new(Point::new(*x, *y), *d);
                $body
            }
            Shape::Ellipse { x, y, w, h } => {
                let $p = Ellipse::new(Point::new(*x, *y), Size::new(*w, *h));
                $body
            }
            Shape::RRect { x, y, w, h, tl, tr, br, bl } => {
                let $p = mk_rrect(*x, *y, *w, *h, *tl, *tr, *br, *bl);
                $body
            }
            Shape::Tri { a, b, c } => {
                let $p = Triangle::new(pt(*a), pt(*b), pt(*c));
                $body
            }
            Shape::Line { a, b } => {
                let $p = Line::new(pt(*a), pt(*b));
                $body
            }
            Shape::Arc { x, y, d, start, sweep } => {
                let $p = Arc::new(Point::new(*x, *y), *d, qdeg(*start), qdeg(*sweep));
                $body
            }
            Shape::Sector { x, y, d, start, sweep } => {
                let $p = Sector::new(Point::new(*x, *y), *d, qdeg(*start), qdeg(*sweep));
                $body
            }
            Shape::Polyline { pts, tx, ty } => {
                let __v: Vec<Point> = pts.iter().map(|p| pt(*p)).collect();
                let $p = Polyline::new(&__v).translate(Point::new(*tx, *ty));
                $body
            }
        }
    }};
}

// ---------------------------------------------------------------------------------------------
// shape domains

pub fn tri_area2(a: P2, b: P2, c: P2) -> i64 {
    (b.0 - a.0) as i64 * (c.1 - a.1) as i64 - (c.0 - a.0) as i64 * (b.1 - a.1) as i64
}

/// all vertex triples on a g×g grid with the given stride, offset so the grid straddles the origin
pub fn tri_grid(g: i32, stride: i32, ox: i32, oy: i32) -> Vec<Shape> {
    let mut v = vec![];
    let mk = |i: i32| ((i % g) * stride + ox, (i / g) * stride + oy);
    for a in 0..g * g {
        for b in 0..g * g {
            for c in 0..g * g {
                v.push(Shape::Tri { a: mk(a), b: mk(b), c: mk(c) });
            }
        }
    }
    v
}

/// unequal-corner radii alphabet
pub const UNEQ: [(u32, u32); 4] = [(0, 0), (1, 3), (3, 1), (5, 5)];

/// The drawable catalogue of primitive shapes DC(tier) (DESIGN.md section 6).  `pos` = base position.
/// display-scale catalogue: every primitive kind at sizes 100..=320 px (one 1024 px shape per position), far right of /
/// below, far left of / above and straddling the origin; sizes whose products pass 2^16
pub fn display_scale_catalogue() -> Vec<Shape> {
    let mut v = vec![];
    for (i, (x, y)) in [(500, 300), (-700, -900), (-150, -100)].into_iter().enumerate() {
        v.push(Shape::Rect { x, y, w: 320, h: 240 });
        v.push(Shape::Rect { x, y, w: 1, h: 300 });
        v.push(Shape::Circle { x, y, d: 255 });
        v.push(Shape::Circle { x, y, d: 300 });
        v.push(Shape::Ellipse { x, y, w: 320, h: 240 });
        v.push(Shape::Ellipse { x, y, w: 255, h: 257 });
        v.push(Shape::rrect_eq(x, y, 300, 200, (40, 30)));
        v.push(Shape::RRect { x, y, w: 300, h: 200, tl: (150, 100), tr: (10, 90), br: (0, 0), bl: (200, 200) });
        v.push(Shape::Tri { a: (x, y), b: (x + 300, y + 20), c: (x + 40, y + 250) });
        v.push(Shape::Tri { a: (x + 300, y), b: (x, y + 100), c: (x + 150, y + 53) });
        v.push(Shape::Line { a: (x, y), b: (x + 300, y + 200) });
        v.push(Shape::Line { a: (x + 100, y + 240), b: (x, y) });
        v.push(Shape::Arc { x, y, d: 200, start: 120, sweep: 800 });
        v.push(Shape::Sector { x, y, d: 201, start: -180, sweep: 1200 });
        v.push(Shape::Sector { x, y, d: 256, start: 1000, sweep: -333 });
        v.push(Shape::Polyline { pts: vec![(x, y), (x + 200, y + 10), (x + 100, y + 150), (x - 50, y + 60)], tx: if i == 1 { 7 } else { 0 }, ty: 0 });
        match i {
            0 => v.push(Shape::Ellipse { x, y, w: 1024, h: 600 }),
            1 => v.push(Shape::Circle { x, y, d: 1024 }),
            _ => v.push(Shape::rrect_eq(x, y, 1024, 768, (300, 200))),
        }
    }
    v
}

/// styles for the display-scale catalogue
pub fn display_scale_styles() -> Vec<Sty> {
    vec![
        Sty { fill: true, stroke: false, w: 0, al: 0, same: false },
        Sty { fill: false, stroke: true, w: 1, al: 0, same: false },
        Sty { fill: true, stroke: true, w: 3, al: 1, same: false },
        Sty { fill: true, stroke: true, w: 20, al: 2, same: false },
        Sty { fill: false, stroke: true, w: 64, al: 0, same: false },
        Sty { fill: true, stroke: true, w: 300, al: 1, same: false },
    ]
}

pub fn shape_catalogue(thorough: bool, pos: P2) -> Vec<Shape> {
    let (x, y) = pos;
    let mut v = vec![];
    let e = if thorough { 4 } else { 0 };
    for w in 0..=7 + e {
        for h in 0..=7 + e {
            v.push(Shape::Rect { x, y, w, h });
        }
    }
    for d in 0..=12 + e {
        v.push(Shape::Circle { x, y, d });
    }
    for w in 0..=9 + e {
        for h in 0..=9 + e {
            v.push(Shape::Ellipse { x, y, w, h });
        }
    }
    for w in 0..=7 + e / 2 {
        for h in 0..=7 + e / 2 {
            for rx in 0..=4 {
                for ry in 0..=4 {
                    v.push(Shape::rrect_eq(x, y, w, h, (rx, ry)));
                }
            }
        }
    }
    let uneq_sizes: &[(u32, u32)] = if thorough { &[(7, 6), (3, 11), (8, 8), (10, 4), (1, 8), (5, 5)] } else { &[(7, 6), (3, 11), (8, 8)] };
    for &(w, h) in uneq_sizes {
        for tl in UNEQ {
            for tr in UNEQ {
                for br in UNEQ {
                    for bl in UNEQ {
                        v.push(Shape::RRect { x, y, w, h, tl, tr, br, bl });
                    }
                }
            }
        }
    }
    // flat and steep corners on wider shapes (radii far from square survive confinement only there)
    for (w, h) in [(12u32, 5u32), (20, 7), (40, 6), (6, 21)] {
        for r in [(4u32, 1u32), (5, 1), (6, 1), (16, 2), (1, 4), (2, 9)] {
            v.push(Shape::rrect_eq(x, y, w, h, r));
            let z = (0, 0);
            v.push(Shape::RRect { x, y, w, h, tl: r, tr: z, br: z, bl: z });
            v.push(Shape::RRect { x, y, w, h, tl: z, tr: r, br: z, bl: z });
            v.push(Shape::RRect { x, y, w, h, tl: z, tr: z, br: r, bl: z });
            v.push(Shape::RRect { x, y, w, h, tl: z, tr: z, br: z, bl: r });
        }
    }
    // lines: all pairs in [-3,3]^2 (relative to pos)
    for x0 in -3..=3 {
        for y0 in -3..=3 {
            for x1 in -3..=3 {
                for y1 in -3..=3 {
                    v.push(Shape::Line { a: (x + 2 + x0, y + 3 + y0), b: (x + 2 + x1, y + 3 + y1) });
                }
            }
        }
    }
    let step = if thorough { 15 } else { 30 };
    for d in 0..=9 + e as u32 {
        let mut start = 0;
        while start < 360 {
            let mut sweep = -390;
            while sweep <= 390 {
                v.push(Shape::Arc { x, y, d, start: start * 4, sweep: sweep * 4 });
                v.push(Shape::Sector { x, y, d, start: start * 4, sweep: sweep * 4 });
                sweep += step;
            }
            start += step;
        }
    }
    // start angles outside [0, 360)
    for d in [5u32, 8] {
        for start in [-90, -30, 400, -725] {
            for sweep in [-300, -90, 45, 200, 390] {
                v.push(Shape::Arc { x, y, d, start: start * 4, sweep: sweep * 4 });
                v.push(Shape::Sector { x, y, d, start: start * 4, sweep: sweep * 4 });
            }
        }
    }
    v
}

/// Triangles of the catalogue (kept separate: by far the largest family)
pub fn triangle_catalogue(thorough: bool, pos: P2) -> Vec<Shape> {
    let (x, y) = pos;
    if thorough {
        let mut v = tri_grid(5, 2, x - 2, y);
        v.extend(tri_grid(6, 1, x - 1, y - 1));
        v
    } else {
        tri_grid(5, 2, x - 2, y)
    }
}

/// Polylines with 0..=max_n vertices on a g×g grid with the given stride; translate field zero and non-zero
pub fn polyline_catalogue(max_n: usize, g: i32, stride: i32, pos: P2) -> Vec<Shape> {
    let mut v = vec![];
    let mk = |i: i32| ((i % g) * stride + pos.0, (i / g) * stride + pos.1);
    let cells = g * g;
    fn rec(n: usize, cur: &mut Vec<i32>, cells: i32, out: &mut Vec<Vec<i32>>) {
        if cur.len() == n {
            out.push(cur.clone());
            return;
        }
        for c in 0..cells {
            cur.push(c);
            rec(n, cur, cells, out);
            cur.pop();
        }
    }
    for n in 0..=max_n {
        let mut seqs = vec![];
        rec(n, &mut vec![], cells, &mut seqs);
        for s in seqs {
            let pts: Vec<P2> = s.iter().map(|&i| mk(i)).collect();
            v.push(Shape::Polyline { pts: pts.clone(), tx: 0, ty: 0 });
            v.push(Shape::Polyline { pts, tx: -5, ty: 3 });
        }
    }
    v
}

/// every polyline with exactly `n` vertices on a g x g grid (stride 1) at `pos`: dense enough for every pair of
/// segment directions with small deltas (joins whose rounded corners coincide need particular slopes)
pub fn polyline_dense(n: usize, g: i32, pos: P2) -> Vec<Shape> {
    let cells = (g * g) as usize;
    let total = cells.pow(n as u32);
    let mut v = Vec::with_capacity(total);
    for mut i in 0..total {
        let mut pts = Vec::with_capacity(n);
        for _ in 0..n {
            let c = (i % cells) as i32;
            i /= cells;
            pts.push((c % g + pos.0, c / g + pos.1));
        }
        v.push(Shape::Polyline { pts, tx: 0, ty: 0 });
    }
    v
}

/// Expands `$body` for the four closed shapes with `$s` = the concrete `Styled` and `$p` = the
/// primitive; other shapes evaluate `$other`.
#[macro_export]
macro_rules! with_closed_styled {
    ($shape:expr, $style:expr, $C:ty, |$s:ident, $p:ident| $body:expr, $other:expr) => {{
        use embedded_graphics::prelude::*;
        use embedded_graphics::primitives::*;
        use $crate::catalog::{mk_rect, mk_rrect, Shape};
        let __style: PrimitiveStyle<$C> = $style;
        match $shape {
            Shape::Rect { x, y, w, h } => {
                let $p = mk_rect(*x, *y, *w, *h);
                let $s = $p.into_styled(__style);
                $body
            }
            Shape::Circle { x, y, d } => {
                let $p = Circle::new(Point::new(*x, *y), *d);
                let $s = $p.into_styled(__style);
                $body
            }
            Shape::Ellipse { x, y, w, h } => {
                let $p = Ellipse::new(Point::new(*x, *y), Size::new(*w, *h));
                let $s = $p.into_styled(__style);
                $body
            }
            Shape::RRect { x, y, w, h, tl, tr, br, bl } => {
                let $p = mk_rrect(*x, *y, *w, *h, *tl, *tr, *br, *bl);
                let $s = $p.into_styled(__style);
                $body
            }
            _ => $other,
        }
    }};
}

/// a case = shape × style
#[derive(Clone, Debug, PartialEq, Eq, Hash, Serialize, Deserialize)]
pub struct Styled2 {
    pub shape: Shape,
    pub sty: Sty,
}

pub fn product(shapes: &[Shape], styles: &[Sty]) -> Vec<Styled2> {
    let mut v = Vec::with_capacity(shapes.len() * styles.len());
    for s in shapes {
        for st in styles {
            v.push(Styled2 { shape: s.clone(), sty: *st });
        }
    }
    v
}
