//! C02 Bounding boxes contain everything that is drawn
use egverif::catalog::*;
use egverif::fw::*;
use egverif::imgs::*;
use egverif::targets::*;
use egverif::texts::*;
use egverif::{with_image, with_styled};
use embedded_graphics::image::{Image, ImageDrawable};
use embedded_graphics::pixelcolor::Rgb565;
use embedded_graphics::prelude::*;
use embedded_graphics::primitives::Rectangle;

type C = Rgb565;

fn outside<CC>(m: &Map<CC>, bb: &Rectangle) -> Vec<(i32, i32)> {
    m.keys().filter(|k| !bb.contains(Point::new(k.0, k.1))).take(6).copied().collect()
}

/// dotted rectangles (the only primitive with a non-solid stroke style)
fn check_dotted(case: &Styled2, obs: &mut Obs) {
    let mut style = case.sty.build::<C>();
    style.stroke_style = embedded_graphics::primitives::StrokeStyle::Dotted;
    if let Shape::Rect { x, y, w, h } = &case.shape {
        let s = mk_rect(*x, *y, *w, *h).into_styled(style);
        let bb = s.bounding_box();
        let mut a = RecD::<C>::new();
        s.draw(&mut a).unwrap();
        let mut b = RecN::<C>::new();
        s.draw(&mut b).unwrap();
        obs.outcome(&a.map);
        obs.nontrivial_if(!a.map.is_empty());
        obs.class("dotted-rectangle");
        for (name, m) in [("draw-default", &a.map), ("draw-native", &b.map)] {
            let o = outside(m, &bb);
            if !o.is_empty() {
                obs.fail("bounding-box-contains-drawn-pixels", format!("{name}: dotted rectangle bounding_box {:?} does not contain drawn {:?}", rt(&bb), o));
            }
            if style.is_transparent() && !m.is_empty() {
                obs.fail("transparent-draws-nothing", format!("{name}: {} pixels", m.len()));
            }
        }
    }
}

fn check_prim(case: &Styled2, obs: &mut Obs) {
    let sty = case.sty;
    with_styled!(&case.shape, sty.build::<C>(), C, |s| {
        let bb = s.bounding_box();
        // the styled box through its other public entry points
        let bb2 = embedded_graphics::primitives::StyledDimensions::styled_bounding_box(&s.primitive, &s.style);
        let bb3 = embedded_graphics::primitives::Styled::new(s.primitive.clone(), s.style).bounding_box();
        if bb2 != bb || bb3 != bb {
            obs.fail("bounding-box-entry-points-agree", format!("Styled::bounding_box {:?}, styled_bounding_box {:?}, Styled::new(..).bounding_box {:?}", rt(&bb), rt(&bb2), rt(&bb3)));
        }
        let mut a = RecD::<C>::new();
        s.draw(&mut a).unwrap();
        let mut b = RecN::<C>::new();
        s.draw(&mut b).unwrap();
        let mut c = RecD::<C>::new();
        c.draw_iter(s.pixels()).unwrap();
        obs.outcome(&a.map);
        obs.outcome(&rt(&bb));
        obs.nontrivial_if(!a.map.is_empty());
        obs.class(case.shape.kind());
        let transparent = s.style.is_transparent();
        obs.class_if(transparent, "transparent");
        obs.class_if(sty.w > 1 && sty.stroke, "thick-stroke");
        obs.class_if(sty.al == 2 && sty.w > 0 && sty.stroke, "outside-stroke");
        for (name, m) in [("draw-default", &a.map), ("draw-native", &b.map), ("pixels", &c.map)] {
            let o = outside(m, &bb);
            if !o.is_empty() {
                obs.fail("bounding-box-contains-drawn-pixels", format!("{name}: bounding_box {:?} does not contain drawn {:?}", rt(&bb), o));
            }
            if transparent && !m.is_empty() {
                obs.fail("transparent-draws-nothing", format!("{name}: {} pixels drawn with a transparent style", m.len()));
            }
        }
    })
}

fn img_check<I: ImageDrawable>(img: &I, case: &ImgCase, obs: &mut Obs)
where
    I::Color: std::hash::Hash + core::fmt::Debug,
{
    let at = Point::new(case.at.0, case.at.1);
    let image = if case.center { Image::with_center(img, at) } else { Image::new(img, at) };
    let bb = image.bounding_box();
    let mut a = RecD::<I::Color>::new();
    image.draw(&mut a).unwrap();
    let mut b = RecN::<I::Color>::new().draining();
    image.draw(&mut b).unwrap();
    obs.outcome(&a.map);
    obs.nontrivial_if(!a.map.is_empty());
    obs.class(if case.sub2.is_some() { "sub-sub-image" } else if case.sub.is_some() { "sub-image" } else { "image" });
    for (name, m) in [("draw-default", &a.map), ("draw-native", &b.map)] {
        let o = outside(m, &bb);
        if !o.is_empty() {
            obs.fail("bounding-box-contains-drawn-pixels", format!("{name}: image bounding_box {:?} does not contain drawn {:?}", rt(&bb), o));
        }
    }
}

fn check_img(case: &ImgCase, obs: &mut Obs) {
    with_image!(case, IC, |img| img_check(img, case, obs), panic!("bad image length"))
}

fn check_text(case: &TextCase, obs: &mut Obs) {
    let t = case.build::<C>();
    let bb = t.bounding_box();
    let mut a = RecD::<C>::new();
    t.draw(&mut a).unwrap();
    let mut b = RecN::<C>::new();
    t.draw(&mut b).unwrap();
    obs.outcome(&a.map);
    obs.outcome(&rt(&bb));
    obs.nontrivial_if(!a.map.is_empty());
    obs.class("text");
    obs.class_if(case.transparent(), "text-transparent");
    obs.class_if(case.underline != 0, "text-underline");
    obs.class_if(case.strike != 0, "text-strikethrough");
    obs.class_if(case.bg, "text-background");
    obs.class_if(case.text.matches('\n').count() >= 2, "text-3-lines");
    obs.class_if(case.align != 0, "text-aligned");
    for (name, m) in [("draw-default", &a.map), ("draw-native", &b.map)] {
        let o = outside(m, &bb);
        if !o.is_empty() {
            obs.fail("bounding-box-contains-drawn-pixels", format!("{name}: text bounding_box {:?} does not contain drawn {:?}", rt(&bb), o));
        }
        if case.transparent() && !m.is_empty() {
            obs.fail("transparent-draws-nothing", format!("{name}: {} pixels drawn by transparent text", m.len()));
        }
    }
}

const STRINGS: [&str; 7] = ["", "a", "ab\ncd", "a\n\nb", "x\r\ny", "\u{7}\u{1F600}", "gjpqy_|\nW"];

fn text_cases(tier: Tier) -> Vec<TextCase> {
    let mut v = vec![];
    let lhs: &[(u8, u32)] = &[(1, 100), (1, 150), (0, 0), (0, 7)];
    let all_deco: Vec<(bool, bool, u8, u8)> = {
        let mut d = vec![];
        for t in [true, false] {
            for b in [false, true] {
                for u in 0..3u8 {
                    for s in 0..3u8 {
                        d.push((t, b, u, s));
                    }
                }
            }
        }
        d
    };
    let mut push = |fonts: &[usize], strings: &[&str], decos: &[(bool, bool, u8, u8)], lhs: &[(u8, u32)], v: &mut Vec<TextCase>| {
        for &f in fonts {
            for s in strings {
                for &(t, b, u, st) in decos {
                    for bl in 0..4u8 {
                        for al in 0..3u8 {
                            for &lh in lhs {
                                v.push(TextCase { font: font_name(f), text: s.to_string(), text_color: t, bg: b, underline: u, strike: st, baseline: bl, align: al, lh, pos: (-5, 7) });
                            }
                        }
                    }
                }
            }
        }
    };
    if tier.is_thorough() {
        let all: Vec<usize> = (0..FONTS.len()).collect();
        push(&all, &STRINGS, &all_deco, lhs, &mut v);
    } else {
        // three sizes x all 14 subsets with everything; every font once with a reduced product
        let mut three = vec![];
        for s in SUBSETS {
            let f = fonts_of(s);
            three.push(f[0]);
            three.push(f[f.len() / 2]);
            three.push(f[f.len() - 1]);
        }
        push(&three, &STRINGS, &deco16(), lhs, &mut v);
        let all: Vec<usize> = (0..FONTS.len()).collect();
        push(&all, &["gj\nW"], &all_deco, &[(1, 100)], &mut v);
    }
    v
}

fn image_cases(tier: Tier) -> Vec<ImgCase> {
    let mut v = vec![];
    let (mw, mh) = tier.pick((5, 4), (9, 6));
    for bpp in [1u8, 4, 16, 24] {
        for w in 0..=mw {
            for h in 0..=mh {
                let data = pattern(2, required_len(w, h, bpp));
                for sx in -1..=(w as i32 + 1) {
                    for sw in [0, 1, 3, 20] {
                        let sub = Some((sx, (sx % 2) - 1 + 1, sw, 2 + sw % 2));
                        for (at, center) in [((-2, 3), false), ((4, 1), true)] {
                            v.push(ImgCase { bpp, be: bpp == 4, w, h, data: data.clone(), sub, sub2: None, at, center });
                            if sw == 3 {
                                v.push(ImgCase { bpp, be: bpp == 4, w, h, data: data.clone(), sub, sub2: Some((1, 0, 5, 1)), at, center });
                            }
                        }
                    }
                }
                v.push(ImgCase { bpp, be: false, w, h, data: data.clone(), sub: None, sub2: None, at: (-3, -3), center: false });
                v.push(ImgCase { bpp, be: false, w, h, data: data.clone(), sub: None, sub2: None, at: (5, 0), center: true });
            }
        }
    }
    v
}


/// arcs and sectors only (the family whose trigonometry changes with the `fixed_point` feature)
fn angle_shapes(pos: P2) -> Vec<Shape> {
    shape_catalogue(false, pos).into_iter().filter(|s| matches!(s, Shape::Arc { .. } | Shape::Sector { .. })).collect()
}

fn run_part(run: &mut Run) {
    let tier = run.tier;
    let t = tier.is_thorough();
    let w = tier.pick(5, 8);
    match run.part.as_str() {
        "shapes" => {
            run.sweep_vec("shapes", "shape catalogue x S(W) at (-2,-3)", || product(&shape_catalogue(t, (-2, -3)), &styles(w)), check_prim);
            run.sweep_vec("display-scale", "display-scale catalogue (every primitive kind, 200..=320 px plus one 1024 px shape, at three positions far from / across the origin) x 6 styles (widths 0, 1, 3, 20, 64, 300)", || product(&display_scale_catalogue(), &display_scale_styles()), check_prim);
            run.sweep_vec("triangles", "all vertex triples of a 5x5 grid stride 2 (thorough: plus 6x6 stride 1) x S(W)", || product(&triangle_catalogue(t, (-2, -3)), &styles(w)), check_prim);
            run.sweep_vec("polylines", "polylines with 0..=4 (thorough 5) vertices on a 3x3 grid stride 3, translate field zero/non-zero x stroke styles", || {
                let sh = polyline_catalogue(tier.pick(4, 5), 3, 3, (-3, -2));
                let st: Vec<Sty> = styles(tier.pick(5, 7)).into_iter().filter(|s| !s.fill || s.w <= 1).collect();
                product(&sh, &st)
            }, check_prim);
            run.sweep_vec("polylines-dense", "every 3-vertex polyline on an 8x8 grid (thorough 10x10) and every 4-vertex polyline on a 4x4 grid (thorough 5x5) x stroke widths 2, 3 (4-vertex: also 4)", || {
                let thick = |w: u32| Sty { fill: false, stroke: true, w, al: 0, same: false };
                let mut v = product(&polyline_dense(3, tier.pick(8, 10), (-3, -2)), &[thick(2), thick(3)]);
                v.extend(product(&polyline_dense(4, tier.pick(4, 5), (-2, -1)), &[thick(2), thick(3), thick(4)]));
                v
            }, check_prim);
            run.sweep_vec("dotted-rectangles", "rectangles w,h in 0..=14 x S(9) with StrokeStyle::Dotted", || {
                let mut sh = vec![];
                for w in 0..=14 {
                    for h in 0..=14 {
                        sh.push(Shape::Rect { x: -3, y: 2, w, h });
                    }
                }
                sh.push(Shape::Rect { x: 0, y: 0, w: 41, h: 17 });
                sh.push(Shape::Rect { x: 0, y: 0, w: 12, h: 40 });
                product(&sh, &styles(9))
            }, check_dotted);
            run.sweep_vec("images", "images 4 raw widths x sizes x sub-image areas (inside, overlapping, outside, zero-sized, nested) x Image::new/with_center", || image_cases(tier), check_img);
        }
        "angles-fixed-point" => {
            run.sweep_vec("arcs-sectors-fixed-point", "arcs and sectors of the catalogue x S(W) in the fixed_point build", || product(&angle_shapes((-2, -3)), &styles(w)), check_prim);
        }
        "text" => {
            run.sweep_vec("text-custom-fonts", "three synthetic fonts with character spacing x 7 strings x 16 colour/decoration sets x 4 baselines x 3 alignments x 2 line heights", || {
                // beyond the statement's quantifier (built-in fonts have no spacing).  Excluded: text with neither text nor
                // background colour, whose decorations span the advance width incl. the trailing spacing — behaviour pinned by
                // the repository's own test transparent_text_dimensions_one_line_spaced, not a defect (DESIGN.md section 7)
                text_catalogue_named(&CUSTOM_FONTS, &CUSTOM_STRINGS, &[(1, 100), (0, 3)], (-5, 7)).into_iter().filter(|t| t.text_color || t.bg).collect()
            }, check_text);
            run.sweep_vec("text", "built-in fonts (quick: 3 sizes x 14 subsets fully + all 292 fonts with one string; thorough: all 292 fully) x strings x {text,background,underline,strikethrough} x 4 baselines x 3 alignments x 4 line heights",
                || text_cases(tier), check_text);
        }
        p => panic!("unknown part {p}"),
    }
}

fn main() {
    egverif::fw::main(Prop {
        id: "C02",
        level: "exploration",
        rule: "every drawable of the listed catalogue once; non-trivial = at least one pixel drawn; every recorded pixel (unbounded recording target, both draw paths and pixels()) must satisfy bounding_box().contains(p); a completely transparent style must leave the map empty",
        assumptions: &["bounded to the listed catalogue; all 292 built-in fonts are covered (in quick with a reduced string/decoration product)", "only containment, not tightness, is asserted"],
        parts: |_| vec![PartSpec::new("shapes", "verif"), PartSpec::new("text", "verif"), PartSpec::new("angles-fixed-point", "verif_fp")],
        run_part,
        required_classes: |_| vec!["rect", "circle", "ellipse", "rrect", "triangle", "line", "arc", "sector", "polyline", "transparent", "thick-stroke", "outside-stroke", "image", "sub-image", "sub-sub-image", "text", "text-transparent", "text-underline", "text-strikethrough", "text-background", "text-3-lines", "text-aligned", "dotted-rectangle"],
        crash_is_verdict: false,
    })
}
