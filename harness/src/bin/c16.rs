//! C16 Rectangle operations agree with the set of points they describe
use egverif::fw::*;
use egverif::targets::{rect, rt};
use embedded_graphics::geometry::{AnchorPoint, AnchorX, AnchorY};
use embedded_graphics::prelude::*;
use embedded_graphics::primitives::Rectangle;
use serde::{Deserialize, Serialize};

type R4 = (i32, i32, u32, u32);

/// point-set model: half-open box in i64; None = no points
#[derive(Clone, Copy, PartialEq, Eq, Debug)]
struct B {
    x0: i64,
    y0: i64,
    x1: i64,
    y1: i64,
}
fn model(r: &R4) -> Option<B> {
    if r.2 == 0 || r.3 == 0 {
        None
    } else {
        Some(B { x0: r.0 as i64, y0: r.1 as i64, x1: r.0 as i64 + r.2 as i64, y1: r.1 as i64 + r.3 as i64 })
    }
}
fn bset(r: &Rectangle) -> Option<B> {
    model(&rt(r))
}
fn isect(a: Option<B>, b: Option<B>) -> Option<B> {
    let (a, b) = (a?, b?);
    let c = B { x0: a.x0.max(b.x0), y0: a.y0.max(b.y0), x1: a.x1.min(b.x1), y1: a.y1.min(b.y1) };
    if c.x1 > c.x0 && c.y1 > c.y0 {
        Some(c)
    } else {
        None
    }
}
fn in_b(b: Option<B>, p: (i64, i64)) -> bool {
    b.map_or(false, |b| p.0 >= b.x0 && p.0 < b.x1 && p.1 >= b.y0 && p.1 < b.y1)
}

const ANCHORS: [AnchorPoint; 9] = [
    AnchorPoint::TopLeft,
    AnchorPoint::TopCenter,
    AnchorPoint::TopRight,
    AnchorPoint::CenterLeft,
    AnchorPoint::Center,
    AnchorPoint::CenterRight,
    AnchorPoint::BottomLeft,
    AnchorPoint::BottomCenter,
    AnchorPoint::BottomRight,
];

#[derive(Clone, Debug, PartialEq, Eq, Hash, Serialize, Deserialize)]
struct One {
    r: R4,
}

fn check_one(c: &One, obs: &mut Obs) {
    let a = rect(c.r.0, c.r.1, c.r.2, c.r.3);
    let m = model(&c.r);
    let (x, y, w, h) = (c.r.0 as i64, c.r.1 as i64, c.r.2 as i64, c.r.3 as i64);
    obs.outcome(&c.r);
    obs.nontrivial_if(m.is_some());
    obs.class_if(m.is_none(), "zero-sized");
    obs.class_if(w == 0 && h > 0 || h == 0 && w > 0, "zero-in-one-dimension");
    obs.class_if(x.abs() > 1000 || w > 1000, "large");
    let small = w * h <= 4096;
    // points(): row-major, each once
    if w * h <= 64 {
        iter_protocol("Rectangle::points()", 64, || a.points(), obs);
    }
    // size_hint of any rectangle (also with 2^31 points and more) brackets the number of points, initially and after
    // one and after w + 1 items
    {
        let total: u128 = if m.is_some() { w as u128 * h as u128 } else { 0 };
        let mut it = a.points();
        for taken in [0u128, 1, w as u128 + 1] {
            let (lo, hi) = it.size_hint();
            let remaining = total.saturating_sub(taken.min(total));
            if taken <= w as u128 + 1 && ((lo as u128) > remaining || hi.is_some_and(|h| (h as u128) < remaining)) {
                obs.fail("points-size_hint-brackets-the-count", format!("after {} items size_hint = ({lo}, {hi:?}) but {remaining} points remain", taken.min(total)));
            }
            // advance to the next probe position
            let next_taken = if taken == 0 { 1 } else { w as u128 + 1 };
            if taken < next_taken && w <= 4096 {
                for _ in taken..next_taken {
                    it.next();
                }
            } else if w > 4096 {
                break;
            }
        }
    }
    if small {
        let got: Vec<(i32, i32)> = a.points().map(|p| (p.x, p.y)).collect();
        let mut want = vec![];
        if m.is_some() {
            for yy in 0..h {
                for xx in 0..w {
                    want.push(((x + xx) as i32, (y + yy) as i32));
                }
            }
        }
        if got != want {
            obs.fail("points-row-major", format!("{} points, {} expected; first {:?}", got.len(), want.len(), got.first()));
        }
    }
    // contains
    let probes: Vec<(i64, i64)> = if small {
        let mut v = vec![];
        for yy in y - 2..y + h + 2 {
            for xx in x - 2..x + w + 2 {
                v.push((xx, yy));
            }
        }
        v
    } else {
        let mut v = vec![];
        for xx in [x - 1, x, x + 1, x + w / 2, x + w - 2, x + w - 1, x + w, x + w + 1] {
            for yy in [y - 1, y, y + 1, y + h / 2, y + h - 2, y + h - 1, y + h, y + h + 1] {
                v.push((xx, yy));
            }
        }
        v
    };
    for p in probes {
        if p.0 < i32::MIN as i64 || p.0 > i32::MAX as i64 || p.1 < i32::MIN as i64 || p.1 > i32::MAX as i64 {
            continue;
        }
        if a.contains(Point::new(p.0 as i32, p.1 as i32)) != in_b(m, p) {
            obs.fail("contains", format!("contains({:?}) = {}", p, !in_b(m, p)));
            break;
        }
        // the ContainsPoint trait implementation is a separate entry point
        if embedded_graphics::primitives::ContainsPoint::contains(&a, Point::new(p.0 as i32, p.1 as i32)) != in_b(m, p) {
            obs.fail("contains-through-the-ContainsPoint-trait", format!("ContainsPoint::contains({:?}) = {}", p, !in_b(m, p)));
            break;
        }
    }
    // bottom_right
    match (a.bottom_right(), m) {
        (Some(br), Some(b)) => {
            if (br.x as i64, br.y as i64) != (b.x1 - 1, b.y1 - 1) {
                obs.fail("bottom_right", format!("{:?}", br));
            }
        }
        (None, None) => {}
        (g, _) => obs.fail("bottom_right", format!("{:?} for a rectangle with {} points", g, if m.is_some() { "some" } else { "no" })),
    }
    // center (rounded down) and with_center round trip
    let cen = a.center();
    if w >= 1 && cen.x as i64 != x + (w - 1) / 2 || h >= 1 && cen.y as i64 != y + (h - 1) / 2 {
        obs.fail("center-rounded-down", format!("center {:?}", cen));
    }
    if Rectangle::with_center(cen, a.size) != a {
        obs.fail("with_center(center(),size)-is-identity", format!("{:?}", rt(&Rectangle::with_center(cen, a.size))));
    }
    // rows / columns
    if (a.rows().start as i64, a.rows().end as i64) != (y, y + h) || (a.columns().start as i64, a.columns().end as i64) != (x, x + w) {
        obs.fail("rows/columns", format!("rows {:?} columns {:?}", a.rows(), a.columns()));
    }
    if a.is_zero_sized() != m.is_none() {
        obs.fail("is_zero_sized", String::new());
    }
    // anchor points (for dimensions with at least one pixel)
    for ap in ANCHORS {
        let p = a.anchor_point(ap);
        let wx = match ap.x() {
            AnchorX::Left => x,
            AnchorX::Center => x + (w - 1).max(0) / 2,
            AnchorX::Right => x + w - 1,
        };
        let wy = match ap.y() {
            AnchorY::Top => y,
            AnchorY::Center => y + (h - 1).max(0) / 2,
            AnchorY::Bottom => y + h - 1,
        };
        if w >= 1 && p.x as i64 != wx || h >= 1 && p.y as i64 != wy {
            obs.fail("anchor_point", format!("{:?} -> {:?}, expected ({wx},{wy})", ap, p));
        }
        if a.anchor_x(ap.x()) != p.x || a.anchor_y(ap.y()) != p.y {
            obs.fail("anchor_point", format!("anchor_x/anchor_y disagree with anchor_point for {:?}", ap));
        }
    }
    // offset: every side moves by n (rectangles with sides only)
    if m.is_some() {
        for n in -5..=5i64 {
            let o = a.offset(n as i32);
            let want = if w + 2 * n > 0 && h + 2 * n > 0 { Some(B { x0: x - n, y0: y - n, x1: x + w + n, y1: y + h + n }) } else { None };
            if bset(&o) != want {
                obs.fail("offset-moves-every-side", format!("offset({n}) = {:?}, expected box {:?}", rt(&o), want));
            }
            // per dimension: the two sides of a dimension that survives move by n also when the other dimension
            // collapses; a collapsed dimension has no extent (its position is not asserted)
            let (ox, oy, ow, oh) = (o.top_left.x as i64, o.top_left.y as i64, o.size.width as i64, o.size.height as i64);
            let okx = if w + 2 * n > 0 { ox == x - n && ow == w + 2 * n } else { ow == 0 };
            let oky = if h + 2 * n > 0 { oy == y - n && oh == h + 2 * n } else { oh == 0 };
            obs.class_if((w + 2 * n > 0) != (h + 2 * n > 0), "offset-collapses-one-dimension");
            if !okx || !oky {
                obs.fail("offset-moves-every-side", format!("offset({n}) = {:?}: the sides of a surviving dimension must move by {n}, a collapsed dimension must be empty", rt(&o)));
            }
        }
    }
    // resized: size is the new one, the anchor stays (centre anchors within one pixel)
    if small {
        for ap in ANCHORS {
            for nw in 0..=5u32 {
                for nh in 0..=5u32 {
                    let r = a.resized(Size::new(nw, nh), ap);
                    if r.size != Size::new(nw, nh) {
                        obs.fail("resized-size", format!("{:?}", rt(&r)));
                    }
                    let (pa, pr) = (a.anchor_point(ap), r.anchor_point(ap));
                    let okx = w == 0 || nw == 0 || if ap.x() == AnchorX::Center { (pa.x - pr.x).abs() <= 1 } else { pa.x == pr.x };
                    let oky = h == 0 || nh == 0 || if ap.y() == AnchorY::Center { (pa.y - pr.y).abs() <= 1 } else { pa.y == pr.y };
                    if !okx || !oky {
                        obs.fail("resized-keeps-anchor", format!("resized(({nw},{nh}), {:?}) = {:?}: anchor {:?} -> {:?}", ap, rt(&r), pa, pr));
                    }
                    if a.resized_width(nw, ap.x()) != a.resized(Size::new(nw, a.size.height), ap) || a.resized_height(nh, ap.y()) != a.resized(Size::new(a.size.width, nh), ap) {
                        obs.fail("resized_width/height-agree-with-resized", format!("{:?} ({nw},{nh})", ap));
                    }
                }
            }
        }
    }
}

#[derive(Clone, Debug, PartialEq, Eq, Hash, Serialize, Deserialize)]
struct Two {
    a: R4,
    b: R4,
}

fn check_two(c: &Two, obs: &mut Obs) {
    let (a, b) = (rect(c.a.0, c.a.1, c.a.2, c.a.3), rect(c.b.0, c.b.1, c.b.2, c.b.3));
    let (ma, mb) = (model(&c.a), model(&c.b));
    let want = isect(ma, mb);
    let i = a.intersection(&b);
    let j = b.intersection(&a);
    obs.outcome(&rt(&i));
    obs.nontrivial_if(ma.is_some() || mb.is_some());
    obs.class_if(want.is_some(), "overlapping");
    obs.class_if(want.is_none() && ma.is_some() && mb.is_some(), "disjoint");
    obs.class_if(want.is_some() && want == ma && ma != mb, "a-inside-b");
    obs.class_if(ma.is_none() != mb.is_none(), "one-zero-sized");
    obs.class_if(ma.is_none() && mb.is_none(), "both-zero-sized");
    if let (Some(x), Some(y)) = (ma, mb) {
        obs.class_if(x.x0 < y.x0 && x.x1 > y.x1 && want.is_some(), "a-spans-b-horizontally");
    }
    if bset(&i) != want {
        obs.fail("intersection-is-common-points", format!("intersection = {:?}, common points {:?}", rt(&i), want));
    }
    if bset(&j) != bset(&i) {
        obs.fail("intersection-symmetric", format!("a&b = {:?}, b&a = {:?}", rt(&i), rt(&j)));
    }
    if want.is_none() != i.is_zero_sized() {
        obs.fail("intersection-zero-sized-iff-empty", format!("{:?}", rt(&i)));
    }
    // envelope: smallest rectangle containing both, zero sizes treated as 1
    let one = |r: &R4| B { x0: r.0 as i64, y0: r.1 as i64, x1: r.0 as i64 + (r.2 as i64).max(1), y1: r.1 as i64 + (r.3 as i64).max(1) };
    let (ea, eb) = (one(&c.a), one(&c.b));
    let we = B { x0: ea.x0.min(eb.x0), y0: ea.y0.min(eb.y0), x1: ea.x1.max(eb.x1), y1: ea.y1.max(eb.y1) };
    let e = a.envelope(&b);
    if bset(&e) != Some(we) || bset(&b.envelope(&a)) != Some(we) {
        obs.fail("envelope-is-smallest-containing-rectangle", format!("envelope = {:?}, expected box {:?}", rt(&e), we));
    }
}

#[derive(Clone, Debug, PartialEq, Eq, Hash, Serialize, Deserialize)]
struct Corners {
    a: (i32, i32),
    b: (i32, i32),
}
fn check_corners(c: &Corners, obs: &mut Obs) {
    let r = Rectangle::with_corners(Point::new(c.a.0, c.a.1), Point::new(c.b.0, c.b.1));
    obs.mark_nontrivial();
    obs.outcome(&rt(&r));
    obs.class("with_corners");
    let want = (c.a.0.min(c.b.0), c.a.1.min(c.b.1), (c.a.0 as i64 - c.b.0 as i64).unsigned_abs() as u32 + 1, (c.a.1 as i64 - c.b.1 as i64).unsigned_abs() as u32 + 1);
    if rt(&r) != want {
        obs.fail("with_corners", format!("{:?} expected {:?}", rt(&r), want));
    }
}

fn small_rects(xr: i32, yr: i32, maxs: u32) -> Vec<R4> {
    let mut v = vec![];
    for x in -xr..=xr {
        for y in -yr..=yr {
            for w in 0..=maxs {
                for h in 0..=maxs {
                    v.push((x, y, w, h));
                }
            }
        }
    }
    v
}

fn big_rects() -> Vec<R4> {
    let cs = [-(1 << 20), -1025, -1, 0, 7, 1 << 20];
    let ss = [0u32, 1, 2, 1000, 1 << 20, (1 << 21) + 1];
    let mut v = vec![];
    for &x in &cs {
        for &y in &cs {
            for &w in &ss {
                for &h in &ss {
                    v.push((x, y, w, h));
                }
            }
        }
    }
    v
}

fn run_part(run: &mut Run) {
    let tier = run.tier;
    run.sweep_vec("single", "all rectangles with top-left in [-3,3]x[-2,2] and w,h in 0..=4 (thorough [-4,4]x[-3,3], 0..=6) plus the boundary-value product of 6 coordinates and 6 sizes around +-2^20: points, contains (box grown by 2), bottom_right, center, with_center, rows/columns, 9 anchor points, offsets -5..=5, resized to all sizes 0..=5^2 for 9 anchors", || {
        let mut v: Vec<One> = if tier.is_thorough() { small_rects(5, 4, 7) } else { small_rects(3, 2, 4) }.into_iter().map(|r| One { r }).collect();
        v.extend(big_rects().into_iter().map(|r| One { r }));
        v
    }, check_one);
    run.sweep_vec("pairs", "all ordered pairs of the small rectangles (875^2 quick) plus all ordered pairs of a 6x6x4x4 boundary-value product: intersection (point set, symmetry, zero-sized iff empty) and envelope", || {
        let s = if tier.is_thorough() { small_rects(4, 3, 6) } else { small_rects(3, 2, 4) };
        let mut v = Vec::with_capacity(s.len() * s.len());
        for a in &s {
            for b in &s {
                v.push(Two { a: *a, b: *b });
            }
        }
        let big: Vec<R4> = big_rects().into_iter().filter(|r| r.2 != 2 && r.3 != 2 && r.2 != (1 << 21) + 1 && r.3 != (1 << 21) + 1).collect();
        for a in &big {
            for b in &big {
                v.push(Two { a: *a, b: *b });
            }
        }
        v
    }, check_two);
    run.sweep_vec("corners", "with_corners over all corner pairs in [-3,3]^4 plus extreme coordinates", || {
        let mut v = vec![];
        for ax in -3..=3 {
            for ay in -3..=3 {
                for bx in -3..=3 {
                    for by in -3..=3 {
                        v.push(Corners { a: (ax, ay), b: (bx, by) });
                    }
                }
            }
        }
        for a in [-(1 << 20), 0, 1 << 20] {
            for b in [-(1 << 20), -1, 1 << 20] {
                v.push(Corners { a: (a, b), b: (b, a) });
            }
        }
        v
    }, check_corners);
}

fn main() {
    egverif::fw::main(Prop {
        id: "C16",
        level: "exploration",
        rule: "every rectangle / ordered pair / corner pair of the listed finite grids once; non-trivial = at least one rectangle has points; results are compared with explicit point sets (half-open boxes in 64-bit arithmetic) built from top-left + size; empty results are compared as point sets, offsets are asserted for rectangles with sides, anchors for dimensions with at least one pixel",
        assumptions: &["bounded to the listed grids and the boundary-value product up to +-2^20 (no random rectangles: the 'random' part of the quantifier is replaced by a deterministic boundary product)"],
        parts: |_| vec![PartSpec::new("all", "verif")],
        run_part,
        required_classes: |_| vec!["zero-sized", "zero-in-one-dimension", "large", "overlapping", "disjoint", "a-inside-b", "one-zero-sized", "both-zero-sized", "a-spans-b-horizontally", "with_corners"],
        crash_is_verdict: false,
    })
}
