#!/usr/bin/env python3
"""tools/update_design_numbers.py -- refresh the figure in every '### Cxx ... — <figure>' heading of DESIGN.md section 6
from evidence/<id>.json (quick-tier runs), so that the headings quote what the last committed evidence covered."""
import json, re

def human(n):
    if n >= 10_000_000: return f'{n/1e6:.1f} M'
    if n >= 1_000_000: return f'{n/1e6:.2f} M'
    return f'{n:,}'.replace(',', ' ')

s = open('/verif/DESIGN.md').read()
out = []
for line in s.split('\n'):
    m = re.match(r'^(### (C\d\d) [^—]*)—.*$', line)
    if m:
        e = json.load(open(f'/verif/evidence/{m.group(2)}.json'))
        c = e['coverage']
        fig = f"{e['tier']} tier: {human(c['evaluations'])} cases"
        if 'states' in c:
            fig = f"{e['tier']} tier: explicit-state, {human(c['states'])} states / {human(c['transitions'])} transitions, {human(c['evaluations'])} evaluations in all"
        cnt = c.get('counters', {})
        for k, label in [('fault_runs', 'faulty runs'), ('conversions', 'conversions'), ('stroked_lines', 'stroked lines'), ('store_load_evaluations', 'store/load evaluations')]:
            if k in cnt:
                fig += f", {human(cnt[k])} {label}"
        line = f"{m.group(1)}— {fig}"
    out.append(line)
open('/verif/DESIGN.md', 'w').write('\n'.join(out))
print('\n'.join(l for l in out if l.startswith('### C')))
