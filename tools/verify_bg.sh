#!/bin/bash
# tools/verify_bg.sh <ID>...  — verify both seeds of each id in its scratch worktree, store the result next to the seed
cd "$(dirname "$0")/.."
for ID in "$@"; do
  for V in A B; do
    [ -f /tmp/seeded-out/$ID/$V.patch.diff ] || continue
    [ -f /tmp/seeded-out/$ID/$V.verify.rc ] && continue
    tools/verify_seed.sh "$ID" "$V" > /tmp/seeded-out/$ID/$V.verify.txt 2>&1; echo $? > /tmp/seeded-out/$ID/$V.verify.rc
    echo "$ID-$V $(tail -1 /tmp/seeded-out/$ID/$V.verify.txt)"
  done
  rm -rf /tmp/wt-$ID/target
done
