//! Plain-data raw image cases, an independent pixel model of the documented `ImageRaw` layout, and
//! type dispatch over the 7 raw widths × 2 data orders.

use crate::catalog::P2;
use embedded_graphics::pixelcolor::{raw::RawU32, PixelColor};
use serde::{Deserialize, Serialize};

/// A test colour over `RawU32` (no built-in colour type uses 32 bits).
#[derive(Clone, Copy, Debug, PartialEq, Eq, Hash, PartialOrd, Ord)]
pub struct C32(pub u32);
impl PixelColor for C32 {
    type Raw = RawU32;
}
impl From<RawU32> for C32 {
    fn from(r: RawU32) -> Self {
        use embedded_graphics::pixelcolor::raw::RawData;
        C32(r.into_inner())
    }
}
impl From<C32> for RawU32 {
    fn from(c: C32) -> Self {
        RawU32::new(c.0)
    }
}

pub const BPPS: [u8; 7] = [1, 2, 4, 8, 16, 24, 32];

#[derive(Clone, Debug, PartialEq, Eq, Hash, Serialize, Deserialize)]
pub struct ImgCase {
    pub bpp: u8,
    /// true = BigEndianLsb0, false = LittleEndianMsb0
    pub be: bool,
    pub w: u32,
    pub h: u32,
    pub data: Vec<u8>,
    /// sub_image area (x, y, w, h) relative to the image, and a nested one relative to the first
    pub sub: Option<(i32, i32, u32, u32)>,
    pub sub2: Option<(i32, i32, u32, u32)>,
    /// Image position; `center` = use Image::with_center
    pub at: P2,
    pub center: bool,
}

pub fn bytes_per_row(w: u32, bpp: u8) -> usize {
    (w as usize * bpp as usize + 7) / 8
}
pub fn required_len(w: u32, h: u32, bpp: u8) -> usize {
    bytes_per_row(w, bpp) * h as usize
}

/// Independent decode of pixel (x, y) from the documented layout: rows padded to whole bytes;
/// LittleEndianMsb0: multi-byte pixels little endian, sub-byte pixels most significant bits first;
/// BigEndianLsb0: multi-byte pixels big endian, sub-byte pixels least significant bits first.
pub fn model_pixel(data: &[u8], bpp: u8, be: bool, w: u32, h: u32, x: i32, y: i32) -> Option<u32> {
    if x < 0 || y < 0 || x as u32 >= w || y as u32 >= h {
        return None;
    }
    let row = bytes_per_row(w, bpp) * y as usize;
    let (x, bpp_u) = (x as usize, bpp as usize);
    if bpp < 8 {
        let ppb = 8 / bpp_u;
        let byte = *data.get(row + x / ppb)?;
        let k = x % ppb;
        let shift = if be { k * bpp_u } else { (ppb - 1 - k) * bpp_u };
        Some(((byte >> shift) as u32) & ((1u32 << bpp) - 1))
    } else {
        let n = bpp_u / 8;
        let s = data.get(row + x * n..row + x * n + n)?;
        let mut v = 0u32;
        if be {
            for b in s {
                v = (v << 8) | *b as u32;
            }
        } else {
            for b in s.iter().rev() {
                v = (v << 8) | *b as u32;
            }
        }
        Some(v)
    }
}

/// byte patterns for image contents (incl. non-zero padding bits)
pub fn pattern(id: u8, len: usize) -> Vec<u8> {
    (0..len)
        .map(|i| match id {
            0 => (i as u8).wrapping_mul(37).wrapping_add(0x1B) ^ ((i as u8) << 5),
            1 => 0xFF,
            2 => [0xA5u8, 0x3C, 0x5A, 0xC3, 0x96, 0x69, 0x0F][i % 7],
            3 => (i as u8).wrapping_mul(89).wrapping_add(0xE7),
            // no short period (patterns 0 and 3 repeat every 256 bytes, which would hide offsets wrong by a multiple of 256)
            4 => ((i as u32 ^ 0x5bd1).wrapping_mul(2_654_435_761) >> 15) as u8 ^ ((i >> 8) as u8).wrapping_mul(29),
            _ => 0,
        })
        .collect()
}

/// Intersection of two (x, y, w, h) rectangles as half-open boxes; None when empty
pub fn isect(a: (i32, i32, u32, u32), b: (i32, i32, u32, u32)) -> Option<(i32, i32, u32, u32)> {
    let ax1 = a.0 as i64 + a.2 as i64;
    let ay1 = a.1 as i64 + a.3 as i64;
    let bx1 = b.0 as i64 + b.2 as i64;
    let by1 = b.1 as i64 + b.3 as i64;
    let x0 = (a.0 as i64).max(b.0 as i64);
    let y0 = (a.1 as i64).max(b.1 as i64);
    let x1 = ax1.min(bx1);
    let y1 = ay1.min(by1);
    if x1 > x0 && y1 > y0 {
        Some((x0 as i32, y0 as i32, (x1 - x0) as u32, (y1 - y0) as u32))
    } else {
        None
    }
}

impl ImgCase {
    /// The area of the root image (in root coordinates) that this case shows, by the documented
    /// meaning of sub_image (area intersected with the parent's box; nesting composes). None = empty.
    pub fn model_area(&self) -> Option<(i32, i32, u32, u32)> {
        let mut cur = (0, 0, self.w, self.h);
        if cur.2 == 0 || cur.3 == 0 {
            return None;
        }
        for s in [self.sub, self.sub2].into_iter().flatten() {
            // s is relative to cur's top-left
            let abs = (cur.0 + s.0, cur.1 + s.1, s.2, s.3);
            cur = isect(cur, abs)?;
        }
        Some(cur)
    }
}

/// Expands `$body` with the type aliases `$IC` (colour type) and `$BO` (data order) for (bpp, be).
#[macro_export]
macro_rules! with_image_types {
    ($bpp:expr, $be:expr, $IC:ident, $BO:ident, $body:block) => {{
        #[allow(unused_imports)]
        use embedded_graphics::pixelcolor::{raw::{BigEndianLsb0, LittleEndianMsb0}, BinaryColor, Gray2, Gray4, Gray8, Rgb565, Rgb888};
        match ($bpp, $be) {
            (1, false) => {
                #[allow(dead_code)]
                type $IC = BinaryColor;
                #[allow(dead_code)]
                type $BO = LittleEndianMsb0;
                $body
            }
            (1, true) => {
                #[allow(dead_code)]
                type $IC = BinaryColor;
                #[allow(dead_code)]
                type $BO = BigEndianLsb0;
                $body
            }
            (2, false) => {
                #[allow(dead_code)]
                type $IC = Gray2;
                #[allow(dead_code)]
                type $BO = LittleEndianMsb0;
                $body
            }
            (2, true) => {
                #[allow(dead_code)]
                type $IC = Gray2;
                #[allow(dead_code)]
                type $BO = BigEndianLsb0;
                $body
            }
            (4, false) => {
                #[allow(dead_code)]
                type $IC = Gray4;
                #[allow(dead_code)]
                type $BO = LittleEndianMsb0;
                $body
            }
            (4, true) => {
                #[allow(dead_code)]
                type $IC = Gray4;
                #[allow(dead_code)]
                type $BO = BigEndianLsb0;
                $body
            }
            (8, false) => {
                #[allow(dead_code)]
                type $IC = Gray8;
                #[allow(dead_code)]
                type $BO = LittleEndianMsb0;
                $body
            }
            (8, true) => {
                #[allow(dead_code)]
                type $IC = Gray8;
                #[allow(dead_code)]
                type $BO = BigEndianLsb0;
                $body
            }
            (16, false) => {
                #[allow(dead_code)]
                type $IC = Rgb565;
                #[allow(dead_code)]
                type $BO = LittleEndianMsb0;
                $body
            }
            (16, true) => {
                #[allow(dead_code)]
                type $IC = Rgb565;
                #[allow(dead_code)]
                type $BO = BigEndianLsb0;
                $body
            }
            (24, false) => {
                #[allow(dead_code)]
                type $IC = Rgb888;
                #[allow(dead_code)]
                type $BO = LittleEndianMsb0;
                $body
            }
            (24, true) => {
                #[allow(dead_code)]
                type $IC = Rgb888;
                #[allow(dead_code)]
                type $BO = BigEndianLsb0;
                $body
            }
            (32, false) => {
                #[allow(dead_code)]
                type $IC = $crate::imgs::C32;
                #[allow(dead_code)]
                type $BO = LittleEndianMsb0;
                $body
            }
            (32, true) => {
                #[allow(dead_code)]
                type $IC = $crate::imgs::C32;
                #[allow(dead_code)]
                type $BO = BigEndianLsb0;
                $body
            }
            _ => panic!("unsupported bpp"),
        }
    }};
}

/// raw value (as u32) of a colour of any of the seven image colour types
pub fn raw_u32<C: PixelColor>(c: C) -> u32
where
    <C::Raw as embedded_graphics::pixelcolor::raw::RawData>::Storage: Into<u32>,
{
    use embedded_graphics::pixelcolor::raw::RawData;
    let r: C::Raw = c.into();
    r.into_inner().into()
}

/// Builds the real image object of an `ImgCase` (ImageRaw, SubImage or nested SubImage) and
/// evaluates `$body` with `$img` bound to a reference to it and `$IC` aliased to its colour type.
/// Evaluates `$bad` if `ImageRaw::new` rejects the data length.
#[macro_export]
macro_rules! with_image {
    ($case:expr, $IC:ident, |$img:ident| $body:expr, $bad:expr) => {{
        use embedded_graphics::image::{ImageDrawableExt, ImageRaw};
        use embedded_graphics::geometry::Size;
        let __c: &$crate::imgs::ImgCase = $case;
        $crate::with_image_types!(__c.bpp, __c.be, $IC, __BO, {
            match ImageRaw::<$IC, __BO>::new(&__c.data, Size::new(__c.w, __c.h)) {
                Err(_) => $bad,
                Ok(__raw) => match (__c.sub, __c.sub2) {
                    (None, _) => {
                        let $img = &__raw;
                        $body
                    }
                    (Some(a), None) => {
                        let __s = __raw.sub_image(&$crate::targets::rect(a.0, a.1, a.2, a.3));
                        let $img = &__s;
                        $body
                    }
                    (Some(a), Some(b)) => {
                        let __s = __raw.sub_image(&$crate::targets::rect(a.0, a.1, a.2, a.3));
                        let __t = __s.sub_image(&$crate::targets::rect(b.0, b.1, b.2, b.3));
                        let $img = &__t;
                        $body
                    }
                },
            }
        })
    }};
}

/// bit-level model written from the documentation: returns (byte offset, bit shift) list of the
/// pixel's bits; None if pixel `index` does not lie completely inside a buffer of `len` bytes.
pub fn model_store(buf: &[u8], bpp: u8, be: bool, index: u128, v: u32) -> Option<Vec<u8>> {
    let mut out = buf.to_vec();
    let bpp_u = bpp as u128;
    if bpp < 8 {
        let ppb = 8 / bpp_u;
        let byte = index / ppb;
        if byte >= buf.len() as u128 {
            return None;
        }
        let k = (index % ppb) as u32;
        // LittleEndianMsb0: first pixel in the most significant bits; BigEndianLsb0: in the least significant bits
        let shift = if be { k * bpp as u32 } else { (ppb as u32 - 1 - k) * bpp as u32 };
        let mask = ((1u32 << bpp) - 1) as u8;
        let b = &mut out[byte as usize];
        *b = (*b & !(mask << shift)) | (((v as u8) & mask) << shift);
    } else {
        let n = bpp_u / 8;
        let start = index.checked_mul(n)?;
        if start + n > buf.len() as u128 {
            return None;
        }
        for i in 0..n as usize {
            // little endian: least significant byte first; big endian: most significant byte first
            let byte = if be { (v >> (8 * (n as usize - 1 - i))) as u8 } else { (v >> (8 * i)) as u8 };
            out[start as usize + i] = byte;
        }
    }
    Some(out)
}
pub fn model_load(buf: &[u8], bpp: u8, be: bool, index: u128) -> Option<u32> {
    let bpp_u = bpp as u128;
    if bpp < 8 {
        let ppb = 8 / bpp_u;
        let byte = index / ppb;
        if byte >= buf.len() as u128 {
            return None;
        }
        let k = (index % ppb) as u32;
        let shift = if be { k * bpp as u32 } else { (ppb as u32 - 1 - k) * bpp as u32 };
        Some(((buf[byte as usize] >> shift) as u32) & ((1u32 << bpp) - 1))
    } else {
        let n = bpp_u / 8;
        let start = index.checked_mul(n)?;
        if start + n > buf.len() as u128 {
            return None;
        }
        let mut v = 0u32;
        for i in 0..n as usize {
            let byte = buf[start as usize + i] as u32;
            v |= if be { byte << (8 * (n as usize - 1 - i)) } else { byte << (8 * i) };
        }
        Some(v)
    }
}


/// Expands `$body` with the type aliases `$R` (raw type) and `$BO` (data order) for (bpp, be).
#[macro_export]
macro_rules! with_raw_types {
    ($bpp:expr, $be:expr, $R:ident, $BO:ident, $body:block) => {{
        #[allow(unused_imports)]
        use embedded_graphics::pixelcolor::raw::{BigEndianLsb0, LittleEndianMsb0, RawU1, RawU16, RawU2, RawU24, RawU32, RawU4, RawU8};
        match ($bpp, $be) {
            (1, false) => {
                #[allow(dead_code)]
                type $R = RawU1;
                #[allow(dead_code)]
                type $BO = LittleEndianMsb0;
                $body
            }
            (1, true) => {
                #[allow(dead_code)]
                type $R = RawU1;
                #[allow(dead_code)]
                type $BO = BigEndianLsb0;
                $body
            }
            (2, false) => {
                #[allow(dead_code)]
                type $R = RawU2;
                #[allow(dead_code)]
                type $BO = LittleEndianMsb0;
                $body
            }
            (2, true) => {
                #[allow(dead_code)]
                type $R = RawU2;
                #[allow(dead_code)]
                type $BO = BigEndianLsb0;
                $body
            }
            (4, false) => {
                #[allow(dead_code)]
                type $R = RawU4;
                #[allow(dead_code)]
                type $BO = LittleEndianMsb0;
                $body
            }
            (4, true) => {
                #[allow(dead_code)]
                type $R = RawU4;
                #[allow(dead_code)]
                type $BO = BigEndianLsb0;
                $body
            }
            (8, false) => {
                #[allow(dead_code)]
                type $R = RawU8;
                #[allow(dead_code)]
                type $BO = LittleEndianMsb0;
                $body
            }
            (8, true) => {
                #[allow(dead_code)]
                type $R = RawU8;
                #[allow(dead_code)]
                type $BO = BigEndianLsb0;
                $body
            }
            (16, false) => {
                #[allow(dead_code)]
                type $R = RawU16;
                #[allow(dead_code)]
                type $BO = LittleEndianMsb0;
                $body
            }
            (16, true) => {
                #[allow(dead_code)]
                type $R = RawU16;
                #[allow(dead_code)]
                type $BO = BigEndianLsb0;
                $body
            }
            (24, false) => {
                #[allow(dead_code)]
                type $R = RawU24;
                #[allow(dead_code)]
                type $BO = LittleEndianMsb0;
                $body
            }
            (24, true) => {
                #[allow(dead_code)]
                type $R = RawU24;
                #[allow(dead_code)]
                type $BO = BigEndianLsb0;
                $body
            }
            (32, false) => {
                #[allow(dead_code)]
                type $R = RawU32;
                #[allow(dead_code)]
                type $BO = LittleEndianMsb0;
                $body
            }
            (32, true) => {
                #[allow(dead_code)]
                type $R = RawU32;
                #[allow(dead_code)]
                type $BO = BigEndianLsb0;
                $body
            }
            _ => panic!("unsupported bpp"),
        }
    }};
}
