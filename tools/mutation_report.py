#!/usr/bin/env python3
"""tools/mutation_report.py  -- turn the logs of tools/mutation_sweep.py (/tmp/mut/sweep*.log, results*.jsonl) into
seeded/MUTATION_SWEEP.md.  The triage of the survivors that no check reports is kept here (by file:line of the
repaired tree), so that the report can be regenerated."""
import glob, json

TRIAGE = {
    'core/src/geometry/size.rs:163': 'Size + Size saturating vs wrapping: differs only beyond u32::MAX; no statement covers Size arithmetic',
    'core/src/geometry/size.rs:203': 'Size::component_min is not used by any anchored operation; no statement covers it',
    'core/src/geometry/size.rs:246': 'Size::component_div likewise',
    'src/image/image_raw.rs:228': 'guard in draw_sub_image that the public API cannot reach (SubImage::new intersects the area with the parent first)',
    'src/image/image_raw.rs:230': 'same unreachable guard',
    'src/iterator/contiguous.rs:85': 'saturating vs wrapping in the row skip of a cropped stream: the operands are ordered after the intersection, both give the same value',
    'src/mock_display/mod.rs:295': 'set_pixel assertion weakened. Sweep 1 (y <= SIZE): the index computed next is out of range and panics as well. Sweep 2 (|| instead of &&): a real gap: set_pixel((64,5)) wrote cell (0,6) instead of panicking; out-of-range set_pixel actions were added to C20, which now reports the mutant (2 598 violating transitions)',
    'src/mock_display/mod.rs:579': 'selects the panic message format by a build-time environment variable; both branches panic',
    'src/mock_display/mod.rs:692': 'error of writeln! into a String formatter ignored: cannot fail',
    'src/mono_font/mod.rs:131': 'PartialEq of MonoFont: font equality is not part of any statement',
    'src/mono_font/mod.rs:204': 'DecorationDimensions::default_underline offset: C14 asserts decorations at the offsets the font declares, whatever they are',
    'src/mono_font/mono_text_style.rs:71': 'MonoTextStyle::is_transparent (a public query the library itself does not use); a clause for its documented meaning was added to C14 afterwards and reports the mutant',
    'src/primitives/common/plane_sector.rs:61': 'sweep exactly 180 degrees: union and intersection of the two (identical) half-planes coincide',
    'src/primitives/common/scanline.rs:82': 'Scanline::touches one column less tolerant: adjacent spans are drawn separately instead of merged, same pixels',
    'src/primitives/line/bresenham.rs:46': 'step direction for delta.x == 0: never applied',
    'src/primitives/rectangle/styled.rs:264': 'u32 height >= 0 always true: an empty fill_solid call is made, no pixel changes (both target flavours alike)',
    'src/primitives/triangle/mod.rs:102': 'fast-path inside test of Triangle::contains: boundary points are found by the edge-line fallback anyway',
    'src/primitives/triangle/mod.rs:115': 'a == 0 was returned earlier',
    'src/primitives/triangle/mod.rs:118': 'same as :102',
    'src/primitives/triangle/mod.rs:261': 'early verdict in is_collapsed for degenerate joins: only decides whether a thick triangle stroke is rendered as a filled body; the statements about triangles (C05 contains/points, C19 fills and 1 px outlines) do not depend on it, and the path-equivalence checks compare paths that share this function',
    'core/src/geometry/point.rs:239': 'Point / Point component division: no statement covers Point arithmetic',
    'core/src/geometry/size.rs:261': 'Size helper (swap of the two fields) not used by any anchored operation',
    'core/src/geometry/size.rs:291': 'Size -= Size: no statement covers Size arithmetic',
    'core/src/geometry/size.rs:369': 'Size helper, likewise',
    'core/src/primitives/rectangle/mod.rs:555': 'saturating vs wrapping add: differs only when top_left + size passes i32::MAX, outside every domain',
    'src/geometry/angle.rs:258': 'quadrant selection at exactly 270 degrees: both branches give the same sine',
    'src/image/image_raw.rs:227': 'same unreachable guard as :228/:230',
    'src/mono_font/mod.rs:196': 'DecorationDimensions::default_strikethrough offset: C14 asserts decorations at the offsets the font declares',
    'src/mono_font/mono_text_style.rs:92': 'makes the library loop forever (every check ran into the 30 min limit of the sweep script, which had no per-case watchdog yet); with the watchdog of section 2.5 the checks report it under clause terminates',
    'src/primitives/circle/mod.rs:110': 'saturating vs wrapping: differs only beyond u32::MAX',
    'src/primitives/common/line_join.rs:173': 'moves the miter/bevel decision at exactly the miter limit: a rendering choice no statement fixes (the path-equivalence, bounding-box and translation checks still hold)',
    'src/primitives/common/scanline.rs:49': 'horizontal lines: start.y == end.y, both branches give the same range',
    'src/primitives/rectangle/styled.rs:268': '(2s+1).min(w+1)/2 == (2s).min(w+1)/2 for all integers',
    'src/primitives/triangle/mod.rs:116': 'same as :102',
    'core/src/geometry/point.rs:430': 'conversion of a Point into a tuple: no statement covers it',
    'core/src/geometry/size.rs:275': 'Size += Size: no statement covers Size arithmetic',
    'core/src/geometry/size.rs:357': 'conversion of a Size into a tuple: no statement covers it',
    'core/src/primitives/rectangle/mod.rs:429': 'offset == 0: growing by 0 and shrinking by 0 give the same rectangle',
    'src/mock_display/mod.rs:606': 'selects the panic message format by a build-time environment variable; both branches panic',
    'src/mock_display/mod.rs:689': 'error of writeln! into a String formatter ignored: cannot fail',
    'src/mono_font/mono_text_style.rs:177': 'differs only for fonts with a character height of 0 (baseline offset of a text nobody can see); C08, which has such fonts, requires no panic only, and wrapping does not panic',
    'src/primitives/common/plane_sector.rs:122': 'moves points lying exactly on the radial boundary of a sector in or out: inside the 1.5 px band the statement of C18 allows there',
    'src/primitives/common/scanline.rs:88': 'Scanline::touches stricter: spans are drawn separately instead of merged, same pixels',
    'src/primitives/ellipse/mod.rs:94': 'offset == 0: same size either way',
    'src/primitives/triangle/scanline_intersections.rs:95': 'one extra loop iteration over an exhausted edge list',
}


def main():
    lines = []
    for lg in sorted(glob.glob('/tmp/mut/sweep*.log')):
        lines += open(lg).read().splitlines()
    tot = sum(1 for l in lines if l.startswith('['))
    nc = sum(1 for l in lines if 'no-compile' in l)
    ks = sum(1 for l in lines if 'killed-by-suite' in l)
    res = []
    for f in sorted(glob.glob('/tmp/mut/results*.jsonl')):
        res += [json.loads(l) for l in open(f)]
    caught = [r for r in res if r.get('caught_by')]
    unc = [r for r in res if not r.get('caught_by')]
    o = open('/verif/seeded/MUTATION_SWEEP.md', 'w')
    o.write('# Systematic mutation sweep\n\n')
    o.write('`tools/mutation_sweep.py` on private copies (/tmp/mut/repo = worktree of /repo, /tmp/mut/verif = copy of /verif): one-token operator mutants (relational, arithmetic +-1, min/max, && / ||, saturating/wrapping, field swaps, true/false, `?` -> `.ok()`) of the non-test lines of every source file an anchor names, every 7th/8th candidate. A mutant that does not compile or that the repository suite kills is dropped; for the others the quick checks of every property whose anchors name the file are run.\n\n')
    o.write(f'{tot} mutants tried: {nc} do not compile, {ks} killed by the suite, {len(res)} survive the suite; of those {len(caught)} are reported by at least one check and {len(unc)} by none.\n\n')
    o.write('## Survivors of the suite that a check reports\n\n| file:line | mutant | reported by |\n|---|---|---|\n')
    for r in caught:
        o.write(f"| {r['file']}:{r['line']} | `{r['before'][:80]}` → `{r['after'][:80]}` | {', '.join(r['caught_by'])} |\n")
    o.write('\n## Survivors that no check reports (triaged by hand)\n\n| file:line | mutant | checks run | why it is not a violation of a statement |\n|---|---|---|---|\n')
    for r in unc:
        k = f"{r['file']}:{r['line']}"
        o.write(f"| {k} | `{r['before'][:80]}` → `{r['after'][:80]}` | {', '.join(r.get('checks', {}).keys())} | {TRIAGE.get(k, 'NOT TRIAGED')} |\n")
    o.close()
    print(open('/verif/seeded/MUTATION_SWEEP.md').read()[:1500])
    print('untriaged:', [f"{r['file']}:{r['line']}" for r in unc if f"{r['file']}:{r['line']}" not in TRIAGE])


if __name__ == '__main__':
    main()
