#!/bin/bash
# tools/verify_seed.sh <ID> <A|B>  — re-verify an independently written seeded change in the scratch worktree /tmp/wt-<ID>:
#   suite passes with the change, demo fails with it and passes without it.  Prints a summary; exit 0 if all three hold.
set -u
ID="$1"; V="$2"
WT=/tmp/wt-$ID; OUT=/tmp/seeded-out/$ID
[ -d "$WT" ] || git -C /repo worktree add --detach "$WT" HEAD -q
cd "$WT" || exit 2
git checkout -q -- . ; rm -f tests/seed_demo.rs
git apply "$OUT/$V.patch.diff" || { echo "RESULT $ID-$V patch-does-not-apply"; exit 1; }
export CARGO_NET_OFFLINE=true
suite=$(cargo nextest run --workspace --no-fail-fast --offline 2>&1 | grep -E "Summary|error\[|could not compile" | tail -2 | tr '\n' ' ')
doc=$(cargo test --workspace --doc --offline 2>&1 | grep "test result" | tr '\n' ' ')
cp "$OUT/$V.demo.rs" tests/seed_demo.rs
with=$(cargo test --test seed_demo --offline 2>&1 | grep -E "^test result|could not compile" | tail -1)
git checkout -q -- src core
without=$(cargo test --test seed_demo --offline 2>&1 | grep -E "^test result|could not compile" | tail -1)
rm -f tests/seed_demo.rs
echo "RESULT $ID-$V"
echo "  suite-with-change: $suite"
echo "  doctests-with-change: $doc"
echo "  demo-with-change: $with"
echo "  demo-without-change: $without"
ok=0
echo "$suite" | grep -q "560 passed" || ok=1
echo "$suite" | grep -Eq "[1-9][0-9]* failed" && ok=1
echo "$doc" | grep -Eq "FAILED|[1-9][0-9]* failed" && ok=1
echo "$with" | grep -q "FAILED" || ok=1
echo "$without" | grep -q "^test result: ok" || ok=1
echo "  verdict: $([ $ok = 0 ] && echo CONFIRMED || echo REJECTED)"
exit $ok
