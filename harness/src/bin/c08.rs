//! C08 Rendering is total and allocation-free on display-scale inputs
//! Built with overflow checks + debug assertions (`verif`), in the default and the `fixed_point`
//! feature set (thorough: also plain `release`).  A counting global allocator measures every
//! library call region; panics are caught with their location; iterators run under a step budget;
//! a child process that dies or hangs is a verdict for this property.
use egverif::catalog::*;
use egverif::fw::*;
use egverif::imgs::*;
use egverif::targets::*;
use egverif::{with_area_primitive, with_image, with_primitive, with_raw_types, with_styled};
use embedded_graphics::draw_target::DrawTargetExt;
use embedded_graphics::framebuffer::{buffer_size, Framebuffer};
use embedded_graphics::image::{GetPixel, Image, ImageDrawable, ImageRaw};
use embedded_graphics::iterator::raw::RawDataSlice;
use embedded_graphics::mono_font::MonoTextStyleBuilder;
use embedded_graphics::pixelcolor::raw::{BigEndianLsb0, LittleEndianMsb0, RawData, RawU1, RawU16};
use embedded_graphics::pixelcolor::{BinaryColor, Rgb565};
use embedded_graphics::prelude::*;
use embedded_graphics::primitives::{Rectangle, StrokeStyle};
use embedded_graphics::text::{Text, TextStyleBuilder};
use serde::{Deserialize, Serialize};
use std::alloc::{GlobalAlloc, Layout, System};
use std::cell::Cell;

type C = Rgb565;

// ---- counting allocator ------------------------------------------------------------------------
struct Counting;
thread_local! {
    static ALLOCS: Cell<u64> = const { Cell::new(0) };
}
unsafe impl GlobalAlloc for Counting {
    unsafe fn alloc(&self, l: Layout) -> *mut u8 {
        let _ = ALLOCS.try_with(|a| a.set(a.get() + 1));
        System.alloc(l)
    }
    unsafe fn dealloc(&self, p: *mut u8, l: Layout) {
        System.dealloc(p, l)
    }
    unsafe fn realloc(&self, p: *mut u8, l: Layout, n: usize) -> *mut u8 {
        let _ = ALLOCS.try_with(|a| a.set(a.get() + 1));
        System.realloc(p, l, n)
    }
}
#[global_allocator]
static GA: Counting = Counting;
fn allocs() -> u64 {
    ALLOCS.try_with(|a| a.get()).unwrap_or(0)
}

/// Runs one library-call region: no panic, no allocation.  The closure must not allocate itself.
fn probe<R>(obs: &mut Obs, name: &str, f: impl FnOnce() -> R) -> Option<R> {
    let a0 = allocs();
    let r = guarded(f);
    let a1 = allocs();
    obs.count("probes", 1);
    match r {
        Ok(v) => {
            if a1 != a0 {
                obs.fail("no-heap-allocation", format!("{name}: {} allocations", a1 - a0));
            }
            Some(v)
        }
        Err(msg) => {
            let file = msg.split(':').next().unwrap_or("?").to_string();
            obs.fail(&format!("no-panic@{file}"), format!("{name}: {msg}"));
            None
        }
    }
}

/// consume an iterator under a step budget; Err(()) if the budget is exceeded
fn drain<I: Iterator>(it: I, budget: u64) -> Result<u64, ()> {
    let mut n = 0u64;
    for _ in it {
        n += 1;
        if n > budget {
            return Err(());
        }
    }
    Ok(n)
}

const FULL_AREA: u64 = 1 << 18;
const TRUNC_ITEMS: u64 = 4096;

fn budget_for(bb: &embedded_graphics::primitives::Rectangle) -> (bool, u64) {
    let (w, h) = (bb.size.width as u64, bb.size.height as u64);
    let area = w * h;
    if area <= FULL_AREA {
        (true, 16 * (area + 4 * (w + h) + 1024))
    } else {
        (false, TRUNC_ITEMS)
    }
}

#[derive(Clone, Debug, PartialEq, Eq, Hash, Serialize, Deserialize)]
enum Case {
    Prim { shape: Shape, sty: Sty, dotted: bool },
    Text { font: String, text: String, lh: (u8, u32), align: u8, baseline: u8, deco: u8, pos: P2 },
    Img { img: ImgCase },
    /// a filled circle drawn through clipped / cropped / translated adapters with display-scale areas
    Adapter { area: (i32, i32, u32, u32), shift: P2, target_box: (i32, i32, u32, u32), kind: u8 },
    /// out-of-range coordinates / indices
    Range { what: String, a: String, b: String },
}

fn iter_check(obs: &mut Obs, name: &str, full: bool, r: Option<Result<u64, ()>>) {
    if let Some(Err(())) = r {
        if full {
            obs.fail("terminates-within-budget", format!("{name}: iteration did not end within the step budget"));
        }
    }
}

fn check_prim(shape: &Shape, sty: &Sty, dotted: bool, obs: &mut Obs) {
    obs.class(shape.kind());
    obs.class_if(dotted, "dotted");
    obs.class_if(sty.w >= 64, "stroke-width>=64");
    let mut style = sty.build::<C>();
    if dotted {
        style.stroke_style = StrokeStyle::Dotted;
    }
    let far = [Point::new(-1024, -1024), Point::new(1024, -1024), Point::new(-1024, 1024), Point::new(1024, 1024), Point::new(0, 0)];
    // unstyled primitive
    with_primitive!(shape, |p| {
        let bb = probe(obs, "bounding_box", || p.bounding_box());
        if let Some(bb) = bb {
            obs.class_if(bb.is_zero_sized(), "degenerate");
            let (full, budget) = budget_for(&bb);
            obs.class_if(!full, "truncated-iteration");
            let r = probe(obs, "points", || drain(p.points(), budget));
            iter_check(obs, "points()", full, r);
            // the other ways to consume the iterator (allocation-free): nth from the start and after one item, skip,
            // step_by, last and count on small shapes, size_hint, a clone
            probe(obs, "points: nth/skip/step_by/size_hint/clone", || {
                let mut n = 0u64;
                let small = full && budget <= 100_000;
                for k in [0usize, 1, 5, 1 << 20, usize::MAX] {
                    if k > 5 && !small {
                        continue;
                    }
                    n += p.points().nth(k).is_some() as u64;
                    let mut it = p.points();
                    let _ = it.next();
                    n += it.nth(k).is_some() as u64;
                    n += it.size_hint().0 as u64 & 1;
                }
                n += p.points().skip(2).take(4).count() as u64;
                n += p.points().step_by(3).take(4).count() as u64;
                let mut it = p.points();
                let _ = it.next();
                let mut cl = it.clone();
                n += cl.next().is_some() as u64;
                if small {
                    n += p.points().last().is_some() as u64;
                    n += p.points().count() as u64;
                }
                n
            });
            obs.outcome(&r);
            obs.nontrivial_if(matches!(r, Some(Ok(n)) if n > 0));
        }
        probe(obs, "translate", || {
            let q = p.translate(Point::new(-7, 5));
            q.bounding_box()
        });
    });
    with_area_primitive!(
        shape,
        |p| {
            probe(obs, "contains", || {
                let bb = p.bounding_box();
                let mut n = 0u32;
                for q in far {
                    n += p.contains(q) as u32;
                }
                let c = bb.center();
                for q in [bb.top_left, c, bb.top_left + bb.size, bb.top_left - Point::new(1, 1), Point::new(c.x, bb.top_left.y), Point::new(bb.top_left.x, c.y)] {
                    n += p.contains(q) as u32;
                }
                n
            });
        },
        ()
    );
    // styled primitive
    with_styled!(shape, style, C, |s| {
        let bb = probe(obs, "styled bounding_box", || s.bounding_box());
        if let Some(bb) = bb {
            let (full, budget) = budget_for(&bb);
            let r = probe(obs, "pixels", || drain(s.pixels(), budget));
            iter_check(obs, "pixels()", full, r);
            obs.outcome(&r);
            obs.outcome(&rt(&bb));
            obs.nontrivial_if(matches!(r, Some(Ok(n)) if n > 0));
            let big = rect(BIG_BOX.0, BIG_BOX.1, BIG_BOX.2, BIG_BOX.3);
            // native target: fill_solid is O(1), so the whole drawing loop runs
            let r = probe(obs, "draw (native target)", || {
                let mut t = NullTarget::<C, true>::new(big, u64::MAX / 2);
                s.draw(&mut t).is_ok()
            });
            let _ = r;
            let r = probe(obs, "draw (draw_iter-only target)", || {
                let mut t = NullTarget::<C, false>::new(big, budget);
                s.draw(&mut t).is_ok()
            });
            if r == Some(false) && full {
                obs.fail("terminates-within-budget", "draw(): more pixels than the step budget".to_string());
            }
        }
    });
}

fn check_text(c: &Case, obs: &mut Obs) {
    let Case::Text { font, text, lh, align, baseline, deco, pos } = c else { unreachable!() };
    obs.class("text");
    obs.class_if(font == "null", "null-font");
    obs.class_if(text.is_empty(), "empty-string");
    let (tc, bg, ul, st) = egverif::texts::deco16()[*deco as usize];
    // "customr:<cw>x<ch>+<spacing>": the same synthetic font with a mapping string that contains a reversed (empty) range
    if let Some(spec) = font.strip_prefix("customr:") {
        let (size, spacing) = spec.split_once('+').unwrap();
        let (cw, ch) = size.split_once('x').unwrap();
        obs.class("custom-font");
        egverif::texts::with_custom_font_mapping(cw.parse().unwrap(), ch.parse().unwrap(), spacing.parse().unwrap(), 3, "x\0ba\0ah", |f| {
            let style = egverif::texts::char_style::<C>(f, tc, bg, ul, st);
            text_probes(text, *pos, style, *lh, *align, *baseline, obs)
        });
        return;
    }
    if let Some(spec) = font.strip_prefix("custom:") {
        // "custom:<cw>x<ch>+<spacing>": a synthetic font (harness allocations happen outside the probes)
        let (size, spacing) = spec.split_once('+').unwrap();
        let (cw, ch) = size.split_once('x').unwrap();
        obs.class("custom-font");
        egverif::texts::with_custom_font(cw.parse().unwrap(), ch.parse().unwrap(), spacing.parse().unwrap(), 3, |f| {
            let style = egverif::texts::char_style::<C>(f, tc, bg, ul, st);
            text_probes(text, *pos, style, *lh, *align, *baseline, obs)
        });
        return;
    }
    let style = if font == "null" {
        let mut b = MonoTextStyleBuilder::<C>::new();
        if tc {
            b = b.text_color(C::TEXT);
        }
        if bg {
            b = b.background_color(C::BG);
        }
        if ul != 0 {
            b = b.underline();
        }
        if st != 0 {
            b = b.strikethrough_with_color(C::STRIKE);
        }
        b.build()
    } else {
        egverif::texts::char_style::<C>(egverif::texts::font_by_name(font).unwrap(), tc, bg, ul, st)
    };
    text_probes(text, *pos, style, *lh, *align, *baseline, obs)
}

fn text_probes(text: &str, pos: P2, style: embedded_graphics::mono_font::MonoTextStyle<'_, C>, lh: (u8, u32), align: u8, baseline: u8, obs: &mut Obs) {
    use embedded_graphics::text::renderer::TextRenderer;
    probe(obs, "measure_string", || style.measure_string(text, Point::new(pos.0, pos.1), egverif::texts::baseline(baseline)));
    let (lh, align, baseline, pos) = (&lh, &align, &baseline, &pos);
    let ts = TextStyleBuilder::new().alignment(egverif::texts::align(*align)).baseline(egverif::texts::baseline(*baseline)).line_height(egverif::texts::line_height(*lh)).build();
    let t = Text::with_text_style(text, Point::new(pos.0, pos.1), style, ts);
    probe(obs, "text bounding_box", || t.bounding_box());
    let big = rect(BIG_BOX.0, BIG_BOX.1, BIG_BOX.2, BIG_BOX.3);
    let r = probe(obs, "text draw (native)", || {
        let mut n = NullTarget::<C, true>::new(big, 1 << 24);
        t.draw(&mut n).is_ok()
    });
    obs.nontrivial_if(r == Some(true));
    let r2 = probe(obs, "text draw (draw_iter-only)", || {
        let mut n = NullTarget::<C, false>::new(big, 1 << 24);
        t.draw(&mut n).is_ok()
    });
    if r == Some(false) || r2 == Some(false) {
        obs.fail("terminates-within-budget", "text draw exceeded 2^24 pixels".to_string());
    }
    // display-sized targets (the text may start left of / above them or run out of them), also behind clipped()
    probe(obs, "text draw (64x64 and 320x240 targets, clipped)", || {
        let mut ok = true;
        for tb in [rect(0, 0, 64, 64), rect(-257, 1, 320, 240), rect(0, 0, 0, 0)] {
            let mut n = NullTarget::<C, true>::new(tb, 1 << 24);
            ok &= t.draw(&mut n).is_ok();
            let mut d = NullTarget::<C, false>::new(tb, 1 << 24);
            ok &= t.draw(&mut d).is_ok();
            let mut p = NullTarget::<C, true>::new(big, 1 << 24);
            ok &= t.draw(&mut p.clipped(&tb)).is_ok();
        }
        ok
    });
    probe(obs, "text translate", || t.translate(Point::new(3, -3)).bounding_box());
}

fn img_probe<I: ImageDrawable>(img: &I, at: P2, obs: &mut Obs)
where
    I::Color: embedded_graphics::pixelcolor::PixelColor,
{
    let big = rect(BIG_BOX.0, BIG_BOX.1, BIG_BOX.2, BIG_BOX.3);
    let r = probe(obs, "image draw", || {
        let im = Image::new(img, Point::new(at.0, at.1));
        let _ = im.bounding_box();
        let mut n = NullTarget::<I::Color, true>::new(big, 1 << 24);
        let a = im.draw(&mut n).is_ok();
        let mut d = NullTarget::<I::Color, false>::new(big, 1 << 24);
        let b = Image::with_center(img, Point::new(at.0, at.1)).draw(&mut d).is_ok();
        for tb in [rect(0, 0, 64, 64), rect(-257, 1, 320, 240), rect(0, 0, 0, 0)] {
            let mut w = NullTarget::<I::Color, true>::new(tb, 1 << 24);
            let _ = im.draw(&mut w);
            let mut p = NullTarget::<I::Color, true>::new(big, 1 << 24);
            let _ = im.draw(&mut p.clipped(&tb));
        }
        (a, b, n.pixels + d.pixels)
    });
    if let Some((a, b, n)) = r {
        obs.nontrivial_if(n > 0);
        if !a || !b {
            obs.fail("terminates-within-budget", "image draw exceeded 2^24 pixels".to_string());
        }
    }
}

fn check_img(ic: &ImgCase, obs: &mut Obs) {
    obs.class("image");
    obs.class_if(ic.sub.is_some(), "sub-image");
    obs.class_if(ic.w == 0 || ic.h == 0, "zero-sized-image");
    with_image!(ic, IC, |img| img_probe(img, ic.at, obs), panic!("bad image length"))
}

fn check_adapter(c: &Case, obs: &mut Obs) {
    let Case::Adapter { area, shift, target_box, kind } = c else { unreachable!() };
    obs.class("adapter");
    let a = rect(area.0, area.1, area.2, area.3);
    let tb = rect(target_box.0, target_box.1, target_box.2, target_box.3);
    let circle = embedded_graphics::primitives::Circle::new(Point::new(-20, -30), 90).into_styled(Sty { fill: true, stroke: true, w: 3, al: 0, same: false }.build::<C>());
    let data = [0x5Au8; 2 * 5 * 4];
    let img = ImageRaw::<C>::new(&data, Size::new(5, 4)).unwrap();
    let r = probe(obs, "draw through adapters", || {
        let mut t = NullTarget::<C, true>::new(tb, 1 << 24);
        let sh = Point::new(shift.0, shift.1);
        let ok = match kind {
            0 => circle.draw(&mut t.clipped(&a)).is_ok() && Image::new(&img, sh).draw(&mut t.clipped(&a)).is_ok(),
            1 => circle.draw(&mut t.cropped(&a)).is_ok() && Image::new(&img, sh).draw(&mut t.cropped(&a)).is_ok(),
            2 => circle.draw(&mut t.translated(sh)).is_ok(),
            3 => circle.draw(&mut t.translated(sh).clipped(&a)).is_ok() && Image::new(&img, sh).draw(&mut t.translated(sh).clipped(&a)).is_ok(),
            4 => circle.draw(&mut t.cropped(&a).clipped(&a)).is_ok() && t.clipped(&a).clear(C::BG).is_ok() && t.cropped(&a).clear(C::BG).is_ok(),
            _ => {
                let mut cl = t.clipped(&a);
                let b1 = cl.bounding_box();
                let mut cr = cl.cropped(&a);
                let b2 = cr.bounding_box();
                let mut tr = cr.translated(sh);
                let b3 = tr.bounding_box();
                let _ = (b1, b2, b3);
                tr.fill_contiguous(&a, core::iter::repeat(C::FILL)).is_ok() && tr.fill_solid(&a, C::FILL).is_ok()
            }
        };
        (ok, t.pixels)
    });
    if let Some((ok, n)) = r {
        obs.nontrivial_if(n > 0);
        if !ok {
            obs.fail("terminates-within-budget", "adapter draw exceeded 2^24 pixels".to_string());
        }
    }
}

fn parse_pt(a: &str, b: &str) -> Point {
    Point::new(a.parse().unwrap(), b.parse().unwrap())
}

fn check_range(c: &Case, obs: &mut Obs) {
    let Case::Range { what, a, b } = c else { unreachable!() };
    obs.class("out-of-range");
    obs.mark_nontrivial();
    match what.as_str() {
        "framebuffer" => {
            let p = parse_pt(a, b);
            let r = probe(obs, "Framebuffer 1bpp", || {
                let mut fb = Framebuffer::<BinaryColor, RawU1, LittleEndianMsb0, 9, 2, { buffer_size::<BinaryColor>(9, 2) }>::new();
                fb.set_pixel(p, BinaryColor::On);
                (fb.pixel(p).is_some(), fb.data().iter().any(|x| *x != 0))
            });
            let inside = p.x >= 0 && p.y >= 0 && p.x < 9 && p.y < 2;
            if let Some((some, changed)) = r {
                if !inside && (some || changed) {
                    obs.fail("out-of-range-rejected", format!("Framebuffer<1bpp 9x2>: point {:?}: pixel is Some: {some}, data changed: {changed}", p));
                }
            }
            let r = probe(obs, "Framebuffer 16bpp BE", || {
                let mut fb = Framebuffer::<Rgb565, RawU16, BigEndianLsb0, 5, 3, { buffer_size::<Rgb565>(5, 3) }>::new();
                fb.set_pixel(p, Rgb565::WHITE);
                let _ = Pixel(p, Rgb565::WHITE).draw(&mut fb);
                (fb.pixel(p).is_some(), fb.data().iter().any(|x| *x != 0))
            });
            let inside = p.x >= 0 && p.y >= 0 && p.x < 5 && p.y < 3;
            if let Some((some, changed)) = r {
                if !inside && (some || changed) {
                    obs.fail("out-of-range-rejected", format!("Framebuffer<16bpp 5x3>: point {:?}: pixel is Some: {some}, data changed: {changed}", p));
                }
            }
        }
        "framebuffer-fill" => {
            let f: Vec<i64> = a.split(',').map(|x| x.parse().unwrap()).collect();
            let area = Rectangle::new(Point::new(f[0] as i32, f[1] as i32), Size::new(f[2] as u32, f[3] as u32));
            macro_rules! fill_probe {
                ($name:expr, $c:ty, $r:ty, $bo:ty, $w:expr, $h:expr, $col:expr) => {{
                    let r = probe(obs, $name, || {
                        let mut changed = [false; 4];
                        for op in 0..4u8 {
                            let mut fb = Framebuffer::<$c, $r, $bo, $w, $h, { buffer_size::<$c>($w, $h) }>::new();
                            match op {
                                0 => fb.fill_solid(&area, $col).unwrap(),
                                1 => fb.fill_contiguous(&area, core::iter::repeat($col)).unwrap(),
                                2 => area.into_styled(embedded_graphics::primitives::PrimitiveStyle::with_fill($col)).draw(&mut fb).unwrap(),
                                _ => fb.clipped(&area).clear($col).unwrap(),
                            }
                            changed[op as usize] = fb.data().iter().any(|x| *x != 0);
                        }
                        changed
                    });
                    let overlaps = !area.intersection(&Rectangle::new(Point::zero(), Size::new($w, $h))).is_zero_sized();
                    if let Some(ch) = r {
                        if ch.iter().any(|c| *c != overlaps) {
                            obs.fail("out-of-range-rejected", format!("{}: area {:?} overlaps the buffer: {overlaps}; data changed by fill_solid/fill_contiguous/filled rectangle/clipped clear: {:?}", $name, rt(&area), ch));
                        }
                    }
                }};
            }
            fill_probe!("Framebuffer 1bpp 9x2 fills", BinaryColor, RawU1, LittleEndianMsb0, 9, 2, BinaryColor::On);
            fill_probe!("Framebuffer 8bpp 10x10 fills", embedded_graphics::pixelcolor::Gray8, embedded_graphics::pixelcolor::raw::RawU8, LittleEndianMsb0, 10, 10, embedded_graphics::pixelcolor::Gray8::WHITE);
            fill_probe!("Framebuffer 16bpp BE 5x3 fills", Rgb565, RawU16, BigEndianLsb0, 5, 3, Rgb565::WHITE);
            fill_probe!("Framebuffer 4bpp BE 3x3 fills", embedded_graphics::pixelcolor::Gray4, embedded_graphics::pixelcolor::raw::RawU4, BigEndianLsb0, 3, 3, embedded_graphics::pixelcolor::Gray4::WHITE);
        }
        "image-pixel" => {
            let p = parse_pt(a, b);
            let data = [0xFFu8; 12];
            let r = probe(obs, "ImageRaw::pixel", || {
                let i16 = ImageRaw::<Rgb565>::new(&data, Size::new(3, 2)).unwrap();
                let i1 = ImageRaw::<BinaryColor>::new(&data[..4], Size::new(9, 2)).unwrap();
                (i16.pixel(p).is_some(), i1.pixel(p).is_some())
            });
            if let Some((s16, s1)) = r {
                let in16 = p.x >= 0 && p.y >= 0 && p.x < 3 && p.y < 2;
                let in1 = p.x >= 0 && p.y >= 0 && p.x < 9 && p.y < 2;
                if s16 != in16 || s1 != in1 {
                    obs.fail("out-of-range-rejected", format!("ImageRaw::pixel({:?}): 3x2 image {s16}, 9x2 image {s1}", p));
                }
            }
        }
        "raw" => {
            let bpp: u8 = a.parse().unwrap();
            let idx: u128 = b.parse().unwrap();
            let index = idx as usize;
            for be in [false, true] {
                with_raw_types!(bpp, be, R, BO, {
                    let buf = [1u8, 2, 3, 4, 5, 6, 7, 8];
                    let total: u128 = if bpp < 8 { 8 * 8 / bpp as u128 } else { 8 / (bpp as u128 / 8) };
                    let r = probe(obs, "raw load/store/nth", || {
                        let l = R::load::<BO>(&buf, index).is_some();
                        let mut b2 = buf;
                        let s = R::from_u32(0).store::<BO>(&mut b2, index).is_ok();
                        let mut it = RawDataSlice::<R, BO>::new(&buf).into_iter();
                        let _ = it.next();
                        let n = it.nth(index).is_some();
                        let _ = it.size_hint();
                        let n2 = it.next().is_some();
                        (l, s, b2 != buf, n, n2)
                    });
                    if let Some((l, s, changed, n, n2)) = r {
                        let inr = idx < total;
                        if l != inr || s != inr || (!inr && changed) {
                            obs.fail("out-of-range-rejected", format!("{bpp} bpp index {idx}: load is Some: {l}, store is Ok: {s}, buffer changed: {changed}"));
                        }
                        if (idx + 1 >= total) && (n || n2) {
                            obs.fail("out-of-range-rejected", format!("{bpp} bpp: nth({idx}) after one item returned Some"));
                        }
                    }
                });
            }
        }
        "sub-image" => {
            // a = area as "x,y,w,h"
            let v: Vec<i64> = a.split(',').map(|s| s.parse().unwrap()).collect();
            let area = rect(v[0] as i32, v[1] as i32, v[2] as u32, v[3] as u32);
            let data = [0xA5u8; 2 * 7 * 5];
            let r = probe(obs, "sub_image", || {
                use embedded_graphics::image::ImageDrawableExt;
                let img = ImageRaw::<Rgb565>::new(&data, Size::new(7, 5)).unwrap();
                let s = img.sub_image(&area);
                let s2 = s.sub_image(&area);
                let mut t = NullTarget::<Rgb565, true>::new(rect(-4096, -4096, 8192, 8192), 1 << 20);
                let ok = Image::new(&s, Point::new(-3, 2)).draw(&mut t).is_ok() && Image::new(&s2, Point::new(5, 5)).draw(&mut t).is_ok();
                (ok, s.size(), t.pixels)
            });
            if let Some((ok, sz, px)) = r {
                if !ok || sz.width > 7 || sz.height > 5 || px > 2 * 35 {
                    obs.fail("out-of-range-rejected", format!("sub_image({:?}): size {:?}, {px} pixels drawn", v, sz));
                }
            }
        }
        _ => panic!("unknown range probe"),
    }
}

fn check(c: &Case, obs: &mut Obs) {
    egverif::fw::announce_thread("C08", &serde_json::to_string(c).unwrap_or_default());
    match c {
        Case::Prim { shape, sty, dotted } => check_prim(shape, sty, *dotted, obs),
        Case::Text { .. } => check_text(c, obs),
        Case::Img { img } => check_img(img, obs),
        Case::Adapter { .. } => check_adapter(c, obs),
        Case::Range { .. } => check_range(c, obs),
    }
}

// ---- domains (boundary-value products) ---------------------------------------------------------

fn stys(tier: Tier) -> Vec<Sty> {
    let mut v = vec![Sty { fill: true, stroke: false, w: 0, al: 0, same: false }];
    let widths: &[u32] = if tier.is_thorough() { &[1, 2, 3, 10, 64, 128] } else { &[1, 3, 10, 128] };
    for &w in widths {
        for al in 0..3u8 {
            v.push(Sty { fill: false, stroke: true, w, al, same: false });
            if w != 2 && w != 10 {
                v.push(Sty { fill: true, stroke: true, w, al, same: false });
            }
        }
    }
    v.push(Sty { fill: true, stroke: false, w: 64, al: 1, same: false });
    v
}

fn size_pairs(tier: Tier) -> Vec<(u32, u32)> {
    let base: &[u32] = if tier.is_thorough() { &[0, 1, 2, 63, 64, 65, 257, 1024] } else { &[0, 1, 2, 64, 257, 1024] };
    let mut v = vec![];
    for &a in base {
        for &b in base {
            v.push((a, b));
        }
    }
    v.extend([(63, 65), (240, 320), (320, 240), (480, 320), (255, 256), (256, 255), (256, 257), (1024, 3)]);
    v
}

fn positions(tier: Tier) -> Vec<P2> {
    if tier.is_thorough() {
        vec![(0, 0), (-1024, -257), (63, -65), (1024, 1024), (-1, 255), (-255, 1), (320, -1024), (257, 257)]
    } else {
        vec![(0, 0), (-1024, -257), (63, -65), (1024, 1024)]
    }
}

fn prim_cases(tier: Tier, part: &str) -> Vec<Case> {
    let mut shapes: Vec<Shape> = vec![];
    let pos = positions(tier);
    let sizes = size_pairs(tier);
    match part {
        "rect-ellipse" => {
            for &(x, y) in &pos {
                for &(w, h) in &sizes {
                    shapes.push(Shape::Rect { x, y, w, h });
                    shapes.push(Shape::Ellipse { x, y, w, h });
                }
            }
        }
        "circle-rrect" => {
            for &(x, y) in &pos {
                for d in [0u32, 1, 2, 3, 4, 5, 63, 64, 65, 240, 255, 256, 257, 320, 480, 1024] {
                    shapes.push(Shape::Circle { x, y, d });
                }
            }
            for &(x, y) in &pos[..pos.len().min(3)] {
                for &(w, h) in &sizes {
                    if (w + h) % 3 == 1 && !tier.is_thorough() {
                        continue;
                    }
                    for r in [(0u32, 0u32), (1, 1), (5, 3), (200, 101), (1024, 1024)] {
                        shapes.push(Shape::rrect_eq(x, y, w, h, r));
                    }
                    shapes.push(Shape::RRect { x, y, w, h, tl: (1024, 1), tr: (0, 0), br: (5, 200), bl: (200, 5) });
                }
            }
        }
        "arc-sector" => {
            let ds: &[u32] = if tier.is_thorough() { &[0, 1, 2, 5, 64, 257, 480, 1024] } else { &[0, 1, 2, 5, 64, 257, 1024] };
            for &(x, y) in &pos[..pos.len().min(tier.pick(2, 3))] {
                for &d in ds {
                    for start in [0, 33, 90, 180, 350] {
                        for sweep in [0, 30, 90, 200, -400, 720] {
                            shapes.push(Shape::Arc { x, y, d, start: start * 4, sweep: sweep * 4 });
                            shapes.push(Shape::Sector { x, y, d, start: start * 4, sweep: sweep * 4 });
                        }
                    }
                }
            }
        }
        "line-triangle" => {
            let vals: &[i32] = if tier.is_thorough() { &[-1024, -1, 0, 63, 1024] } else { &[-1024, 0, 63, 1024] };
            let pts: Vec<P2> = vals.iter().flat_map(|x| vals.iter().map(move |y| (*x, *y))).collect();
            for a in &pts {
                for b in &pts {
                    shapes.push(Shape::Line { a: *a, b: *b });
                }
            }
            let tv: &[i32] = if tier.is_thorough() { &[-1024, -1, 63, 1024] } else { &[-1024, 0, 1024] };
            let tp: Vec<P2> = tv.iter().flat_map(|x| tv.iter().map(move |y| (*x, *y + 1))).collect();
            for a in &tp {
                for b in &tp {
                    for c in &tp {
                        shapes.push(Shape::Tri { a: *a, b: *b, c: *c });
                    }
                }
            }
            // small and thin triangles
            for t in [[(0, 0), (1, 0), (0, 1)], [(0, 0), (1024, 1), (-1024, 2)], [(5, 5), (5, 5), (5, 5)], [(-3, 0), (0, 0), (7, 0)], [(0, 0), (2, 1023), (4, 0)]] {
                shapes.push(Shape::Tri { a: t[0], b: t[1], c: t[2] });
            }
        }
        "polyline" => {
            let vals: &[i32] = &[-1024, 0, 1024];
            let pts: Vec<P2> = vals.iter().flat_map(|x| vals.iter().map(move |y| (*x, *y - 1))).collect();
            shapes.push(Shape::Polyline { pts: vec![], tx: 0, ty: 0 });
            shapes.push(Shape::Polyline { pts: vec![(3, 3)], tx: 1024, ty: -1024 });
            for a in &pts {
                for b in &pts {
                    shapes.push(Shape::Polyline { pts: vec![*a, *b], tx: 0, ty: 0 });
                    for c in &pts {
                        shapes.push(Shape::Polyline { pts: vec![*a, *b, *c], tx: -5, ty: 1024 });
                        if tier.is_thorough() || (a.0 + b.1 + c.0) % 2048 == 0 {
                            for d in &pts {
                                shapes.push(Shape::Polyline { pts: vec![*a, *b, *c, *d], tx: 0, ty: 0 });
                            }
                        }
                    }
                }
            }
            for v in [vec![(0, 0), (1, 0), (0, 0), (1, 0), (0, 0)], vec![(0, 0), (1000, 1), (0, 2), (1000, 3), (0, 4)], vec![(-5, -5), (-5, -5), (-5, -5), (7, 7)]] {
                shapes.push(Shape::Polyline { pts: v, tx: 0, ty: 0 });
            }
        }
        _ => unreachable!(),
    }
    let st = stys(tier);
    // quick: the large triangle / polyline families get a reduced style list
    let reduced: Vec<Sty> = vec![
        Sty { fill: true, stroke: false, w: 0, al: 0, same: false },
        Sty { fill: false, stroke: true, w: 1, al: 0, same: false },
        Sty { fill: true, stroke: true, w: 3, al: 0, same: false },
        Sty { fill: false, stroke: true, w: 10, al: 1, same: false },
        Sty { fill: false, stroke: true, w: 128, al: 2, same: false },
    ];
    // polylines additionally with a stroke colour of width 0 (the colour is set, nothing may be drawn)
    let mut reduced_polyline = reduced.clone();
    reduced_polyline.push(Sty { fill: false, stroke: true, w: 0, al: 0, same: false });
    let mut v = vec![];
    for s in &shapes {
        let closed_or_line = !matches!(s, Shape::Polyline { .. } | Shape::Line { .. });
        let big_family = matches!(s, Shape::Polyline { .. } | Shape::Tri { .. });
        let list = if big_family && !tier.is_thorough() { if matches!(s, Shape::Polyline { .. }) { &reduced_polyline } else { &reduced } } else { &st };
        for y in list {
            if !closed_or_line && y.fill && !y.stroke {
                continue;
            }
            v.push(Case::Prim { shape: s.clone(), sty: *y, dotted: false });
        }
        if let Shape::Rect { w, h, .. } = s {
            if *w <= 480 && *h <= 480 {
                for y in st.iter().filter(|y| y.stroke && y.w <= 64 && y.al != 1) {
                    v.push(Case::Prim { shape: s.clone(), sty: *y, dotted: true });
                }
            }
        }
    }
    v
}

fn other_cases(tier: Tier) -> Vec<Case> {
    let mut v = vec![];
    // text: null font, line heights, empty strings
    for font in ["null", "ascii::FONT_4X6", "iso_8859_1::FONT_10X20", "custom:5x7+1", "custom:3x2+4", "custom:8x8+0", "custom:1x1+1024", "custom:4x0+0", "custom:0x5+1", "customr:5x7+0"] {
        for text in ["", "a", "ab\ncd", "\n\n", "x\r\ny\n", "Hello World! Hello World!", "\u{1F600}\u{0}", "Gr\u{f6}\u{df}e \u{e4}\u{f6}\u{fc}", "a\u{1F600}b\u{1F600}c"] {
            for lh in [(0u8, 0u32), (0, 1), (0, 1024), (1, 400), (1, 100), (1, 0)] {
                for align in 0..3u8 {
                    for baseline in 0..4u8 {
                        for deco in [0u8, 3, 7, 11, 15] {
                            for pos in [(0, 0), (-1024, 1024), (1024, -1024), (-23, -5), (61, 62)] {
                                if tier.is_thorough() || (align as i32 + baseline as i32 + deco as i32 + pos.0 / 1024 + pos.0 % 2) % 2 == 0 {
                                    v.push(Case::Text { font: font.into(), text: text.into(), lh, align, baseline, deco, pos });
                                }
                            }
                        }
                    }
                }
            }
        }
    }
    // images: zero-sized, display-scale sub-images outside / across / around
    for bpp in BPPS {
        for (w, h) in [(0u32, 0u32), (0, 5), (5, 0), (1, 1), (7, 5), (64, 3)] {
            let data = pattern(2, required_len(w, h, bpp));
            for sub in [None, Some((0, 0, 0, 0)), Some((-1024, -1024, 2048, 2048)), Some((3, 2, 1024, 1024)), Some((1024, 1024, 1024, 1024)), Some((-1024, 0, 1024, 5)), Some((2, 1, 2, 1)), Some((-1, -1, 1, 1)), Some((0, 4, 1024, 0))] {
                for at in [(0, 0), (-1024, 1024), (1024, -257)] {
                    v.push(Case::Img { img: ImgCase { bpp, be: bpp % 3 == 1, w, h, data: data.clone(), sub, sub2: if w == 7 { sub } else { None }, at, center: false } });
                }
            }
        }
    }
    // adapters
    for area in [(0, 0, 0, 0), (-1024, -1024, 2048, 2048), (10, 10, 30, 20), (1024, 1024, 1024, 1024), (-1024, 5, 1024, 1), (63, 63, 1, 1024), (2, 2, 1024, 0), (3, 1, 0, 1024), (-5, -5, 0, 0)] {
        for shift in [(0, 0), (-1024, 1024), (1024, 1024), (-1, 1)] {
            for tb in [(0, 0, 64, 64), (-257, 1, 320, 240), (0, 0, 0, 0), (-1024, -1024, 2048, 2048)] {
                for kind in 0..=5u8 {
                    v.push(Case::Adapter { area, shift, target_box: tb, kind });
                }
            }
        }
    }
    // out of range
    let ext = [i32::MIN, -1024, -1, 0, 1, 2, 3, 5, 9, 1024, i32::MAX];
    for x in ext {
        for y in ext {
            v.push(Case::Range { what: "framebuffer".into(), a: x.to_string(), b: y.to_string() });
            v.push(Case::Range { what: "image-pixel".into(), a: x.to_string(), b: y.to_string() });
        }
    }
    for a in [(-1024, -1024, 2048, 2048), (1024, 1024, 1024, 1024), (-1024, -1024, 1024, 1024), (-1, -1, 1, 1), (1, 1, 1, 1), (2, 1, 1024, 1024), (0, 0, 0, 0), (-1024, 1, 2048, 0), (2, -1024, 0, 2048), (2, 1, 0, 1024), (2, 1, 1024, 0), (2, -1024, 1, 2048), (-1024, 1, 2048, 1), (1024, -1024, 0, 0), (0, 0, 1024, 1), (0, 0, 1, 1024)] {
        v.push(Case::Range { what: "framebuffer-fill".into(), a: format!("{},{},{},{}", a.0, a.1, a.2, a.3), b: String::new() });
    }
    let idxs: Vec<u128> = vec![0, 1, 7, 8, 9, 63, 64, 65, 1 << 31, 1 << 32, 1 << 62, 1 << 63, usize::MAX as u128 / 2, usize::MAX as u128 / 2 + 1, usize::MAX as u128 / 3, usize::MAX as u128 / 3 + 1, usize::MAX as u128 / 4 + 1, usize::MAX as u128 - 1, usize::MAX as u128];
    for bpp in BPPS {
        for i in &idxs {
            v.push(Case::Range { what: "raw".into(), a: bpp.to_string(), b: i.to_string() });
        }
    }
    for a in [(-1024, -1024, 2048, 2048), (1024, 1024, 1024, 1024), (-1024, -1024, 1024, 1024), (-1, -1, 1, 1), (7, 5, 1, 1), (6, 4, 1024, 1024), (0, 0, 0, 0), (-1024, 2, 2048, 0), (3, -1024, 0, 2048), (3, -1024, 1, 2048), (-1024, 2, 2048, 1), (1024, -1024, 0, 0)] {
        v.push(Case::Range { what: "sub-image".into(), a: format!("{},{},{},{}", a.0, a.1, a.2, a.3), b: String::new() });
    }
    v
}

const PRIM_PARTS: [&str; 5] = ["rect-ellipse", "circle-rrect", "arc-sector", "line-triangle", "polyline"];

fn run_part(run: &mut Run) {
    let tier = run.tier;
    // part names: "<domain>" or "<domain>@<variant tag>"
    let part = run.part.split('@').next().unwrap().to_string();
    if PRIM_PARTS.contains(&part.as_str()) {
        run.sweep_vec(
            "primitives",
            "boundary-value product: positions x size pairs from {0,1,2,63,64,65,240,255,256,257,320,480,1024} x stroke widths {0,1,3,10,128} (thorough {0,1,2,3,10,64,128}) x 3 alignments x fill/stroke combinations, corner radii {0,1,5,200,1024}, angles {0,33,90,180,350} x sweeps {0,30,90,200,-400,720}, lines/triangles/polylines from coordinate sets incl. +-1024, coincident and empty; per case: bounding_box, contains at box and display corners, points(), pixels(), draw on a native and a draw_iter-only counting target",
            || prim_cases(tier, &part),
            check,
        );
    } else {
        run.sweep_vec("text-images-adapters-ranges", "text (null font, synthetic fonts with zero glyph height / zero glyph width, line heights {0,1,1024 px,0,100,400 %}, empty and multi-byte strings, positions at, far from and just left of / at the far corner of 64x64 and 320x240 targets, also behind clipped()), images (zero-sized, sub-images outside/across/around at display scale), adapter stacks with display-scale areas, out-of-range points/indices and display-scale fill areas (zero-sized ones included) for Framebuffer, ImageRaw::pixel, raw load/store/nth and sub_image", || other_cases(tier), check);
    }
}

fn parts(tier: Tier) -> Vec<PartSpec> {
    let mut v = vec![];
    let variants: Vec<&'static str> = if tier.is_thorough() { vec!["verif", "verif_fp", "release", "release_fp"] } else { vec!["verif", "verif_fp"] };
    for var in variants {
        for p in PRIM_PARTS.iter().chain(["other"].iter()) {
            // the fixed_point feature only changes the trigonometry behind arcs and sectors: the quick
            // tier runs only that family (and the small 'other' part) in the fixed_point build
            if !tier.is_thorough() && var == "verif_fp" && !(*p == "arc-sector" || *p == "other") {
                continue;
            }
            v.push(PartSpec::new(&format!("{p}@{var}"), var));
        }
    }
    v
}

fn main() {
    egverif::fw::main(Prop {
        id: "C08",
        level: "exploration",
        rule: "every case of the listed boundary-value product once per build variant (overflow-checked default and fixed_point builds; thorough also plain release); per case several probes (counter probes), each a region around library calls: no panic (caught with its location; clause no-panic@<file>), no heap allocation (thread-local counter of a counting global allocator), iteration ends within the step budget (16 x (box area + 4 x perimeter + 1024) when the box area is <= 2^18, otherwise only the first 4096 items are pulled); non-trivial = something is iterated or drawn; out-of-range probes must be rejected without effect",
        assumptions: &["'no heap allocation' is measured for the explored executions; both crates are also #![no_std] without alloc", "iterators of shapes whose box exceeds 2^18 pixels are truncated in the draw_iter-only path (the native-target path runs the whole drawing loop)", "Rectangle arithmetic beyond i32::MAX (Point + Size panics by documented design) is not used"],
        parts,
        run_part,
        required_classes: |_| vec!["rect", "circle", "ellipse", "rrect", "triangle", "line", "arc", "sector", "polyline", "dotted", "stroke-width>=64", "degenerate", "truncated-iteration", "text", "null-font", "custom-font", "empty-string", "image", "sub-image", "zero-sized-image", "adapter", "out-of-range"],
        crash_is_verdict: true,
    })
}
