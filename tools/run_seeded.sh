#!/bin/bash
# tools/run_seeded.sh [tier]  — run every stored seeded change against the quick (or given) check of its property
# (plus the extra checks listed in meta.json "also_run"), update meta.json "detection" and write seeded/RESULTS.md.
set -u
TIER="${1:-quick}"
FILTER="${2:-}"   # optional substring of the seed ids to run (all seeds are always listed in RESULTS.md)
cd "$(dirname "$0")/.."
if [ -n "$(git -C /repo status --porcelain)" ]; then echo "/repo is not clean" >&2; exit 2; fi
for d in seeded/*/; do
  id=$(basename "$d")
  [ -f "$d/patch.diff" ] || continue
  case "$id" in *"$FILTER"*) ;; *) continue ;; esac
  prop=$(python3 -c "import json;print(json.load(open('$d/meta.json'))['breaks_property'])")
  # the other checks listed in also_run are re-run only where the change does not touch the API of its own property
  # (own_check_cannot_see) or when ALL=1 is set; their earlier results stay in meta.json otherwise
  extra=$(python3 -c "import json,os;m=json.load(open('$d/meta.json'));print(' '.join(m.get('also_run',[])) if (m.get('own_check_cannot_see') or os.environ.get('ALL')) else '')" 2>/dev/null)
  out=$(tools/try_patch.sh "$PWD/$d/patch.diff" "$TIER" "$prop" $extra 2>&1)
  echo "== $id"; echo "$out" | cut -c1-200
  OUT_TEXT="$out" python3 - "$d" "$prop" "$TIER" <<'PY'
import json, os, re, sys
d, prop, tier = sys.argv[1:4]
out = os.environ["OUT_TEXT"]
m = json.load(open(d + '/meta.json'))
det = m.get('detection', {})
for l in out.splitlines():
    r = re.match(r'(C\d+) exit=(\d+) violations=(\d+)\s*(.*)', l)
    if r:
        det[r.group(1)] = {"tier": tier, "exit": int(r.group(2)), "violation_lines": int(r.group(3)), "first_cluster": r.group(4)[:300]}
m['detection'] = det
m['caught_by_quick_check_of_its_property'] = det.get(prop, {}).get('exit') == 1
json.dump(m, open(d + '/meta.json', 'w'), indent=1)
PY
done
python3 - <<'PY'
import json, glob, os
rows = []
for f in sorted(glob.glob('seeded/*/meta.json')):
    m = json.load(open(f))
    d = m.get('detection', {})
    prop = m['breaks_property']
    own = d.get(prop, {})
    others = [k for k, v in d.items() if k != prop and v.get('exit') == 1]
    clause = own.get('first_cluster', '')
    cl = clause.split('|')[1] if '|' in clause else ''
    rows.append((m['id'], prop, ', '.join(m.get('files_changed', [])), 'yes' if own.get('exit') == 1 else 'NO', cl, ', '.join(others), m.get('note', '')))
with open('seeded/RESULTS.md', 'w') as o:
    o.write('# Seeded changes: which check catches which\n\n')
    o.write('Every change below was written by a fresh sub-agent that saw only the text of one property and a scratch worktree; each compiles, passes the repository suite (560 tests + doc tests) and comes with a demonstration test that fails with it and passes without it (re-verified with tools/verify_seed.sh). "caught" = the quick check of the property exits 1 with VIOLATION lines when the patch is applied to /repo (tools/run_seeded.sh); the unchanged tree exits 0.\n\n')
    o.write('| id | property | files changed | caught by its quick check | first violated clause | also caught by | note |\n|---|---|---|---|---|---|---|\n')
    for r in rows:
        o.write('| ' + ' | '.join(r) + ' |\n')
    n = len(rows); c = sum(1 for r in rows if r[3] == 'yes')
    nat = [r[0] for r in rows if r[3] != 'yes' and r[5]]
    lost = [r[0] for r in rows if r[3] != 'yes' and not r[5]]
    o.write(f'\n{c} of {n} seeded changes are caught by the quick check of their own property. {len(nat)} more leave the API of the property they were written for untouched and are caught by the check of the property they do break ({", ".join(nat)}). Caught by no check: {", ".join(lost) if lost else "none"}.\n\n"also caught by" lists checks that were seen to report the change at some point (when it arrived or in a later re-run with ALL=1); only the own check is re-run every time.\n')
print(open('seeded/RESULTS.md').read()[-300:])
PY
