//! C09 Raw images and sub-images reproduce their pixel data exactly
use egverif::fw::*;
use egverif::imgs::*;
use egverif::targets::*;
use egverif::{with_image, with_image_types};
use embedded_graphics::image::{GetPixel, Image, ImageDrawable, ImageRaw};
use embedded_graphics::pixelcolor::PixelColor;
use embedded_graphics::prelude::*;
use serde::{Deserialize, Serialize};

fn raw_of<C: PixelColor>(c: C) -> u32
where
    C::Raw: embedded_graphics::pixelcolor::raw::RawData,
    <C::Raw as embedded_graphics::pixelcolor::raw::RawData>::Storage: Into<u32>,
{
    raw_u32(c)
}

fn img_check<I: ImageDrawable>(img: &I, case: &ImgCase, obs: &mut Obs)
where
    I::Color: std::hash::Hash + core::fmt::Debug + PixelColor,
    <<I::Color as PixelColor>::Raw as embedded_graphics::pixelcolor::raw::RawData>::Storage: Into<u32>,
{
    let at = Point::new(case.at.0, case.at.1);
    let image = if case.center { Image::with_center(img, at) } else { Image::new(img, at) };
    // model: area of the root image shown, in root coordinates
    let area = case.model_area();
    let (aw, ah) = area.map_or((0, 0), |a| (a.2, a.3));
    // position of the top-left of the shown area on the target
    let tl = if case.center {
        // centred: the centre pixel (rounded down for even sizes) lands on `at`
        (at.x - (aw.saturating_sub(1) / 2) as i32, at.y - (ah.saturating_sub(1) / 2) as i32)
    } else {
        (at.x, at.y)
    };
    let mut exp: Map<u32> = Map::new();
    if let Some(a) = area {
        for y in 0..a.3 as i32 {
            for x in 0..a.2 as i32 {
                let v = model_pixel(&case.data, case.bpp, case.be, case.w, case.h, a.0 + x, a.1 + y).expect("model pixel inside");
                exp.insert((tl.0 + x, tl.1 + y), v);
            }
        }
    }
    obs.outcome(&exp);
    obs.nontrivial_if(!exp.is_empty());
    obs.class(if case.sub2.is_some() { "sub-sub-image" } else if case.sub.is_some() { "sub-image" } else { "image" });
    obs.class_if(case.w as usize * case.bpp as usize % 8 != 0 && case.h > 1, "row-padding");
    obs.class_if(case.be, "big-endian-lsb0");
    obs.class_if(case.center, "with_center");
    if let (Some(s), Some(a)) = (case.sub, area) {
        let cut = s.0 < 0 || s.1 < 0 || (s.0 as i64 + s.2 as i64) > case.w as i64 || (s.1 as i64 + s.3 as i64) > case.h as i64;
        obs.class_if(cut, "sub-area-overlaps-edge");
        obs.class_if(a.1 + (a.3 as i32) < case.h as i32, "sub-area-above-last-row");
        obs.class_if(a.2 < case.w, "sub-area-narrower");
    }
    obs.class_if(case.sub.is_some() && area.is_none(), "sub-area-empty");
    // size reported by the image object
    let sz = img.size();
    if (sz.width, sz.height) != (aw, ah) && !(area.is_none() && (sz.width == 0 || sz.height == 0)) {
        obs.fail("sub-image-size-is-intersected-area", format!("size() {:?}, model area {:?}", sz, area));
    }
    let mut d = RecD::<I::Color>::new();
    image.draw(&mut d).unwrap();
    let mut n = RecN::<I::Color>::new();
    image.draw(&mut n).unwrap();
    let mut dr = RecN::<I::Color>::new().draining();
    image.draw(&mut dr).unwrap();
    for (name, m) in [("draw_iter-only target", &d.map), ("native target", &n.map), ("draining target", &dr.map)] {
        let got: Map<u32> = m.iter().map(|(k, c)| (*k, raw_of(*c))).collect();
        if got != exp {
            obs.fail("drawn-map==pixel-data", format!("{name}: {}", map_diff(&got, &exp)));
        }
    }
    // targets whose bounding box is a window somewhere on the plane (not at the origin): one that just contains the
    // shown area with a margin of one pixel, one that cuts through it; inside the window the pixels are the image's
    if aw > 0 && ah > 0 {
        use embedded_graphics::primitives::Rectangle;
        let around = Rectangle::new(Point::new(tl.0 - 1, tl.1 - 1), Size::new(aw + 2, ah + 2));
        let cutting = Rectangle::new(Point::new(tl.0 + (aw / 2) as i32, tl.1 + (ah / 2) as i32), Size::new(aw + 3, ah + 3));
        // the image starts exactly on the window's last column / last row / bottom-right pixel
        let last_col = Rectangle::new(Point::new(tl.0 - 2, tl.1), Size::new(3, ah));
        let last_row = Rectangle::new(Point::new(tl.0, tl.1 - 2), Size::new(aw, 3));
        let corner = Rectangle::new(Point::new(tl.0 - 3, tl.1 - 3), Size::new(4, 4));
        for (wname, win) in [("window around the image", around), ("window cutting the image", cutting), ("window whose last column is the image's first", last_col), ("window whose last row is the image's first", last_row), ("window whose bottom-right pixel is the image's first", corner)] {
            let mut wd = RecD::<I::Color>::with_box(win);
            image.draw(&mut wd).unwrap();
            let mut wn = RecN::<I::Color>::with_box(win);
            image.draw(&mut wn).unwrap();
            obs.class_if(win.top_left.x >= win.size.width as i32 || win.top_left.y >= win.size.height as i32, "target-window-far-from-origin");
            let want: Map<u32> = exp.iter().filter(|(k, _)| win.contains(Point::new(k.0, k.1))).map(|(k, v)| (*k, *v)).collect();
            for (name, m) in [("draw_iter-only target", &wd.map), ("native target", &wn.map)] {
                let got: Map<u32> = m.iter().filter(|(k, _)| win.contains(Point::new(k.0, k.1))).map(|(k, c)| (*k, raw_of(*c))).collect();
                if got != want {
                    obs.fail("drawn-map==pixel-data-inside-a-target-window", format!("{wname} {:?}, {name}: {}", rt(&win), map_diff(&got, &want)));
                }
            }
        }
    }
    // the image behind the clipped adapter (the adapter crops the colour stream with nth() and row skips): clip areas
    // that remove rows at the top and columns at the left, the right column and bottom row, three rows at the top,
    // everything but one pixel; the parent receives exactly the image's pixels inside the clip area
    if aw > 0 && ah > 0 {
        use embedded_graphics::draw_target::DrawTargetExt;
        use embedded_graphics::primitives::Rectangle;
        let clips = [
            Rectangle::new(Point::new(tl.0 + 1, tl.1 + 2), Size::new(aw, ah)),
            Rectangle::new(Point::new(tl.0 - 1, tl.1 - 1), Size::new(aw, ah)),
            Rectangle::new(Point::new(tl.0, tl.1 + 3), Size::new(aw + 2, ah)),
            Rectangle::new(Point::new(tl.0 + 2, tl.1), Size::new(aw, ah + 1)),
            Rectangle::new(Point::new(tl.0 + aw as i32 - 1, tl.1 + ah as i32 - 1), Size::new(1, 1)),
            // only complete rows removed: the bottom row; the top and the bottom row
            Rectangle::new(Point::new(tl.0 - 1, tl.1 - 1), Size::new(aw + 2, ah)),
            Rectangle::new(Point::new(tl.0, tl.1 + 1), Size::new(aw, ah.saturating_sub(2))),
        ];
        for clip in clips {
            let want: Map<u32> = exp.iter().filter(|(k, _)| clip.contains(Point::new(k.0, k.1))).map(|(k, v)| (*k, *v)).collect();
            let mut pn = RecN::<I::Color>::new();
            image.draw(&mut pn.clipped(&clip)).unwrap();
            let mut pd = RecD::<I::Color>::new();
            image.draw(&mut pd.clipped(&clip)).unwrap();
            // a parent that drains every colour stream it is handed: each must hold exactly its area's colours
            let mut pdr = RecN::<I::Color>::new().draining();
            image.draw(&mut pdr.clipped(&clip)).unwrap();
            for (area_n, got) in &pdr.drained {
                if area_n != got {
                    obs.fail("colour-stream-has-exactly-width-x-height-colours", format!("behind clipped({:?}): fill_contiguous area of {area_n} pixels received a stream of {got} colours", rt(&clip)));
                }
            }
            obs.class_if(!want.is_empty() && want.len() < exp.len(), "image-partly-inside-a-clipped-target");
            for (name, m) in [("native parent", &pn.map), ("draw_iter-only parent", &pd.map)] {
                let got: Map<u32> = m.iter().map(|(k, c)| (*k, raw_of(*c))).collect();
                if got != want {
                    obs.fail("clipped-target-receives-the-image-inside-the-clip-area", format!("clip area {:?}, {name}: {}", rt(&clip), map_diff(&got, &want)));
                }
            }
        }
    }
    for (area_n, got) in &dr.drained {
        obs.class("stream-drained");
        if area_n != got {
            obs.fail("colour-stream-has-exactly-width-x-height-colours", format!("fill_contiguous area of {area_n} pixels received a stream of {got} colours"));
        }
    }
}

fn raw_checks<C: PixelColor, BO>(raw: &ImageRaw<'_, C, BO>, case: &ImgCase, obs: &mut Obs)
where
    BO: embedded_graphics::pixelcolor::raw::DataOrder,
    for<'x> ImageRaw<'x, C, BO>: GetPixel<Color = C>,
    <C::Raw as embedded_graphics::pixelcolor::raw::RawData>::Storage: Into<u32>,
{
    // pixel(p): the documented layout inside, None exactly outside
    for y in -1..=case.h as i32 {
        for x in -1..=case.w as i32 {
            let got = raw.pixel(Point::new(x, y)).map(raw_of);
            let want = model_pixel(&case.data, case.bpp, case.be, case.w, case.h, x, y);
            if got != want {
                obs.fail("pixel(p)==documented-layout", format!("pixel(({x},{y})) = {:?}, layout model {:?}", got, want));
                return;
            }
        }
    }
    for p in [(i32::MIN, 0), (0, i32::MIN), (i32::MAX, 0), (0, i32::MAX), (i32::MAX, i32::MAX), (case.w as i32, 0), (0, case.h as i32)] {
        if raw.pixel(Point::new(p.0, p.1)).is_some() {
            obs.fail("pixel-none-outside", format!("pixel({:?}) is Some outside the {}x{} image", p, case.w, case.h));
        }
    }
}

fn check_img(case: &ImgCase, obs: &mut Obs) {
    with_image!(case, IC, |img| img_check(img, case, obs), panic!("bad image length"));
    if case.sub.is_none() && !case.center {
        with_image_types!(case.bpp, case.be, IC, BO, {
            let raw = ImageRaw::<IC, BO>::new(&case.data, Size::new(case.w, case.h)).unwrap();
            raw_checks(&raw, case, obs);
        });
    }
}

#[derive(Clone, Debug, PartialEq, Eq, Hash, Serialize, Deserialize)]
struct NewCase {
    bpp: u8,
    be: bool,
    w: u32,
    h: u32,
    len: usize,
}
fn check_new(c: &NewCase, obs: &mut Obs) {
    let data = vec![0x5Au8; c.len];
    let req = required_len(c.w, c.h, c.bpp);
    let ok = with_image_types!(c.bpp, c.be, IC, BO, { ImageRaw::<IC, BO>::new(&data, Size::new(c.w, c.h)).is_ok() });
    obs.mark_nontrivial();
    obs.outcome(&(ok, c.len == req));
    obs.class_if(ok, "new-accepts");
    obs.class_if(!ok, "new-rejects");
    if ok != (c.len == req) {
        obs.fail("new-accepts-exactly-the-required-length", format!("{}x{} at {} bpp needs {req} bytes; new() with {} bytes returned {}", c.w, c.h, c.bpp, c.len, if ok { "Ok" } else { "Err" }));
    }
}

fn sub_areas(w: u32, h: u32, all: bool) -> Vec<(i32, i32, u32, u32)> {
    let mut v = vec![];
    let (w, h) = (w as i32, h as i32);
    for x0 in -1..=w + 1 {
        for x1 in x0..=w + 1 {
            for y0 in -1..=h + 1 {
                for y1 in y0..=h + 1 {
                    if !all {
                        // reduced: keep areas whose corners are on the image edge ring or one inside
                        let key = (x0 + 3 * x1 + 5 * y0 + 7 * y1).rem_euclid(3);
                        if key != 0 {
                            continue;
                        }
                    }
                    v.push((x0, y0, (x1 - x0) as u32, (y1 - y0) as u32));
                }
            }
        }
    }
    v
}

fn cases(tier: Tier, part: &str) -> Vec<ImgCase> {
    let mut v = vec![];
    let t = tier.is_thorough();
    let (mw, mh) = tier.pick((7, 5), (10, 7));
    let bpps: Vec<u8> = match part {
        "sub-byte" => vec![1, 2, 4],
        _ => vec![8, 16, 24, 32],
    };
    for bpp in bpps {
        for be in [false, true] {
            for w in 0..=mw {
                for h in 0..=mh {
                    let len = required_len(w, h, bpp);
                    let mut contents: Vec<Vec<u8>> = vec![];
                    if len <= tier.pick(1, 2) && len > 0 {
                        // all contents
                        for i in 0..(1u32 << (8 * len)) {
                            contents.push((0..len).map(|k| (i >> (8 * k)) as u8).collect());
                        }
                    } else {
                        contents.push(pattern(0, len));
                        contents.push(pattern(1, len));
                        contents.push(pattern(2, len));
                    }
                    for (ci, data) in contents.iter().enumerate() {
                        for (at, center) in [((-2, 3), false), ((4, 1), true), ((40, 30), false), ((-1000, 1000), true)] {
                            v.push(ImgCase { bpp, be, w, h, data: data.clone(), sub: None, sub2: None, at, center });
                        }
                        if ci > 0 && contents.len() > 3 {
                            continue;
                        }
                        // all sub-areas with corners in [-1, w+1] x [-1, h+1]
                        let all = ci == 0 && (t || (w <= 4 && h <= 3));
                        for s in sub_areas(w, h, all) {
                            let (at, center) = if (s.0 + s.1) % 2 == 0 { ((-2, 3), false) } else { ((4, 1), true) };
                            v.push(ImgCase { bpp, be, w, h, data: data.clone(), sub: Some(s), sub2: None, at, center });
                            // nested once more: a few inner areas relative to the first
                            if ci == 0 && s.2 > 0 && s.3 > 0 {
                                for s2 in [(0, 0, s.2, s.3), (1, 0, 2, 9), (0, 1, 9, 1), (-1, -1, 2, 2), (1, 1, 1, 1), (s.2 as i32, 0, 1, 1)] {
                                    if (s.0 + 2 * s.1 + s2.0) % if t { 1 } else { 2 } == 0 {
                                        v.push(ImgCase { bpp, be, w, h, data: data.clone(), sub: Some(s), sub2: Some(s2), at: (1, -1), center: s2.2 == 2 });
                                    }
                                }
                            }
                        }
                    }
                }
            }
        }
    }
    v
}

/// images whose rows are 255..=513 pixels wide, with narrow sub-images far from the left edge (row skips beyond 255)
fn wide_cases(part: &str) -> Vec<ImgCase> {
    let mut v = vec![];
    let bpps: Vec<u8> = match part {
        "sub-byte" => vec![1, 2, 4],
        _ => vec![8, 16, 24, 32],
    };
    for bpp in bpps {
        for be in [false, true] {
            for w in [255u32, 256, 257, 264, 300, 320, 513] {
                let h = 3;
                let data = pattern(4, required_len(w, h, bpp));
                let wi = w as i32;
                v.push(ImgCase { bpp, be, w, h, data: data.clone(), sub: None, sub2: None, at: (-100, 7), center: false });
                for s in [(3, 0, 16, 3), (wi - 17, 1, 16, 2), (250, 0, 9, 3), (1, 1, w - 1, 2), (0, 0, w, 1), (wi - 1, 0, 5, 3), (-5, -1, 7, 9)] {
                    v.push(ImgCase { bpp, be, w, h, data: data.clone(), sub: Some(s), sub2: None, at: (5, -3), center: s.2 == 16 });
                }
                v.push(ImgCase { bpp, be, w, h, data: data.clone(), sub: Some((1, 0, w - 1, 3)), sub2: Some((wi - 12, 1, 5, 2)), at: (300, 200), center: false });
                v.push(ImgCase { bpp, be, w, h, data, sub: Some((2, 1, w - 2, 2)), sub2: Some((0, 0, 3, 2)), at: (0, 0), center: false });
            }
        }
    }
    // 300 x 300 pixels: pixel indices beyond 65535
    for bpp in if part == "sub-byte" { vec![1u8] } else { vec![8u8, 16] } {
        for be in [false, true] {
            let (w, h) = (300u32, 300u32);
            let data = pattern(4, required_len(w, h, bpp));
            v.push(ImgCase { bpp, be, w, h, data: data.clone(), sub: None, sub2: None, at: (-3, -2), center: false });
            v.push(ImgCase { bpp, be, w, h, data: data.clone(), sub: Some((280, 290, 15, 8)), sub2: None, at: (1, 1), center: false });
            v.push(ImgCase { bpp, be, w, h, data, sub: Some((0, 219, 300, 81)), sub2: Some((298, 79, 2, 2)), at: (0, 0), center: true });
        }
    }
    // portrait images 300 rows high
    let bpps: Vec<u8> = match part {
        "sub-byte" => vec![1, 2, 4],
        _ => vec![8, 16, 24, 32],
    };
    for bpp in bpps {
        for be in [false, true] {
            for w in [1u32, 3] {
                let h = 300;
                let data = pattern(4, required_len(w, h, bpp));
                v.push(ImgCase { bpp, be, w, h, data: data.clone(), sub: None, sub2: None, at: (7, -100), center: false });
                for s in [(0, 250, w, 50), (0, 255, 1, 2), (0, 299, w, 1), (-1, 290, 5, 20)] {
                    v.push(ImgCase { bpp, be, w, h, data: data.clone(), sub: Some(s), sub2: None, at: (5, -3), center: false });
                }
            }
        }
    }
    v
}

fn run_part(run: &mut Run) {
    let tier = run.tier;
    let part = run.part.clone();
    match part.as_str() {
        "sub-byte" | "bytes" => {
            run.sweep_vec(
                "images",
                "raw widths x 2 data orders x sizes 0..=5x0..=4 (thorough 10x7) x byte contents (all contents for tiny images, else 3 patterns incl. non-zero padding bits) x sub-areas with corners in [-1,w+1]x[-1,h+1] x nested areas x Image::new/with_center; each drawn on the draw_iter-only, the native and the draining target",
                || cases(tier, &part),
                check_img,
            );
            run.sweep_vec("wide-images", "raw widths x 2 data orders x images 255, 256, 257, 264, 300, 320 and 513 px wide and 3 rows high: whole, 7 sub-areas (narrow ones near both ends, overlapping the edges) and 2 nested sub-areas; images 1 and 3 px wide and 300 rows high with 4 sub-areas near the bottom; 300 x 300 images (pixel indices beyond 65535)", || wide_cases(&part), check_img);
            if part == "bytes" {
                run.sweep_vec(
                    "new",
                    "ImageRaw::new with every buffer length 0..=required+2 for 7 raw widths x 2 orders x sizes 0..=6x0..=5",
                    || {
                        let mut v = vec![];
                        for bpp in BPPS {
                            for be in [false, true] {
                                for w in 0..=6 {
                                    for h in 0..=5 {
                                        for len in 0..=required_len(w, h, bpp) + 2 {
                                            v.push(NewCase { bpp, be, w, h, len });
                                        }
                                    }
                                }
                            }
                        }
                        v
                    },
                    check_new,
                );
            }
        }
        p => panic!("unknown part {p}"),
    }
}

fn main() {
    egverif::fw::main(Prop {
        id: "C09",
        level: "exploration",
        rule: "every image case of the listed finite domain once (distinct by construction, counted by hash); non-trivial = the model area is non-empty; the drawn maps on three reference targets must equal the map decoded independently from the documented byte layout over the intersected (nested) sub-area; pixel(p) is compared with the same model on the image grown by 1 and at extreme points; the draining target must receive exactly width x height colours; ImageRaw::new is tried with every length around the required one",
        assumptions: &["the layout model is written from the documentation (rows padded to whole bytes; LittleEndianMsb0 / BigEndianLsb0), not from the library's bit_position", "bounded to the listed sizes and contents"],
        parts: |_| vec![PartSpec::new("sub-byte", "verif"), PartSpec::new("bytes", "verif")],
        run_part,
        required_classes: |_| vec!["image", "sub-image", "sub-sub-image", "row-padding", "big-endian-lsb0", "with_center", "sub-area-overlaps-edge", "sub-area-above-last-row", "sub-area-narrower", "sub-area-empty", "stream-drained", "target-window-far-from-origin", "image-partly-inside-a-clipped-target", "new-accepts", "new-rejects"],
        crash_is_verdict: false,
    })
}
