//! C11 Raw pixel load/store and iteration round-trip in both data orders
//! Runs in the overflow-checked `verif` build and in the plain `release` build: an unchecked
//! `index * n` is a panic in one and a wrapped, in-range index in the other — both are violations.
use egverif::fw::*;
use egverif::imgs::{model_load, model_store, BPPS};
use egverif::with_raw_types;
use embedded_graphics::iterator::raw::RawDataSlice;
use embedded_graphics::pixelcolor::raw::{DataOrder, RawData};
use serde::{Deserialize, Serialize};

#[derive(Clone, Debug, PartialEq, Eq, Hash, Serialize, Deserialize)]
struct SCase {
    bpp: u8,
    be: bool,
    len: usize,
    /// index as a string (may exceed the JSON number range)
    index: String,
    bg: u8,
    /// 0 boundary values, 1 all values of the type (<= 16 bit)
    values: u8,
}

fn values(bpp: u8, all: bool) -> Vec<u32> {
    let max: u32 = if bpp == 32 { u32::MAX } else { (1u32 << bpp) - 1 };
    if bpp <= 8 || (all && bpp == 16) {
        return (0..=max).collect();
    }
    let mut v = vec![0, max, 0x5A5A_5A5A & max, 0xA5A5_A5A5 & max, 0x0102_0304 & max, 0x0403_0201 & max, 0x8000_0001 & max, 0x00FF_00FF & max, 0xFF00_FF00 & max, 0x1234_5678 & max, 0x00AB_CDEF & max, 0x0080_0000 & max];
    for i in 0..bpp {
        v.push(1u32 << i);
        v.push(max & !(1u32 << i));
    }
    v.sort();
    v.dedup();
    v
}

fn store_check<R: RawData + Copy + core::fmt::Debug, BO: DataOrder>(c: &SCase, obs: &mut Obs)
where
    R::Storage: Into<u32>,
{
    let index: u128 = c.index.parse().unwrap();
    let idx = index as usize;
    let bg: Vec<u8> = (0..c.len).map(|i| match c.bg { 0 => 0x00, 1 => 0xFF, 2 => 0xA5, _ => [0x5Au8, 0xC3, 0x3C, 0x96, 0x0F][i % 5] }).collect();
    let in_range = model_load(&bg, c.bpp, c.be, index).is_some();
    obs.class_if(in_range, "index-in-range");
    obs.class_if(!in_range && index < 1000, "index-just-past-the-end");
    obs.class_if(index > 1 << 40, "wrap-around-index");
    obs.class_if(c.be, "big-endian-lsb0");
    // load on the untouched background
    let got = R::load::<BO>(&bg, idx).map(|r| r.into_inner().into());
    let want = model_load(&bg, c.bpp, c.be, index);
    if got != want {
        obs.fail("load==documented-layout", format!("load(index {index}) = {:?}, layout model {:?} (buffer {:02x?})", got, want, bg));
    }
    let vals = values(c.bpp, c.values == 1);
    obs.count("store_load_evaluations", vals.len() as u64);
    obs.nontrivial_if(in_range);
    // every value is also built from a u32 with all bits above the type's width set: from_u32 documents that only
    // the least significant bits are used
    let excess: u32 = if c.bpp == 32 { 0 } else { !((1u32 << c.bpp) - 1) };
    let his: Vec<u32> = if excess == 0 { vec![0] } else { vec![0, excess] };
    for (v, hi) in vals.iter().flat_map(|v| his.iter().map(move |h| (*v, *h))) {
        let raw = R::from_u32(v | hi);
        if raw.into_inner().into() != v {
            obs.fail("from_u32-keeps-only-the-low-bits", format!("from_u32({:#x}).into_inner() = {:#x}", v | hi, raw.into_inner().into()));
        }
        obs.class_if(hi != 0, "from_u32-with-excess-bits");
        let mut buf = bg.clone();
        let r = raw.store::<BO>(&mut buf, idx);
        match model_store(&bg, c.bpp, c.be, index, v) {
            Some(exp) => {
                if r.is_err() {
                    obs.fail("store-accepts-in-range-index", format!("store(v={v:#x}, index {index}) returned Err in a buffer of {} bytes", c.len));
                }
                if buf != exp {
                    obs.fail("store-writes-documented-layout-and-only-pixel-bits", format!("store(v={v:#x}, index {index}): buffer {:02x?}, layout model {:02x?} (before {:02x?})", buf, exp, bg));
                }
                let back: Option<u32> = R::load::<BO>(&buf, idx).map(|r| r.into_inner().into());
                if back != Some(v) {
                    obs.fail("load-after-store-returns-value", format!("store(v={v:#x}) then load(index {index}) = {:?}", back));
                }
            }
            None => {
                if r.is_ok() {
                    obs.fail("store-rejects-out-of-range-index", format!("store(v={v:#x}, index {index}) returned Ok in a buffer of {} bytes", c.len));
                }
                if buf != bg {
                    obs.fail("rejected-store-leaves-buffer-unchanged", format!("store(v={v:#x}, index {index}) changed the buffer: {:02x?} -> {:02x?}", bg, buf));
                }
            }
        }
        if obs.violations.len() >= 4 {
            break;
        }
    }
}

fn check_store(c: &SCase, obs: &mut Obs) {
    with_raw_types!(c.bpp, c.be, R, BO, { store_check::<R, BO>(c, obs) })
}

// ---- iterator ------------------------------------------------------------------------------

#[derive(Clone, Debug, PartialEq, Eq, Hash, Serialize, Deserialize)]
struct IInit {
    bpp: u8,
    be: bool,
    data: Vec<u8>,
}
#[derive(Clone, Debug, PartialEq, Eq, Hash, Serialize, Deserialize)]
enum IAct {
    Next,
    /// nth(k), k as string
    Nth(String),
}
#[derive(Clone)]
struct ISt {
    hist: Vec<IAct>,
    /// model cursor (saturating at usize::MAX like any usize position)
    cursor: u128,
}
struct IM;

fn total_pixels(i: &IInit) -> u128 {
    if i.bpp < 8 {
        i.data.len() as u128 * (8 / i.bpp as u128)
    } else {
        i.data.len() as u128 / (i.bpp as u128 / 8)
    }
}

fn iter_replay<R: RawData + Copy, BO: DataOrder>(init: &IInit, hist: &[IAct], obs: &mut Obs)
where
    R::Storage: Into<u32>,
{
    let mut it = RawDataSlice::<R, BO>::new(&init.data).into_iter();
    let mut cursor: u128 = 0;
    let total = total_pixels(init);
    let hint_check = |it: &dyn Iterator<Item = R>, cursor: u128, obs: &mut Obs, when: &str| {
        let (lo, hi) = it.size_hint();
        let remaining = total.saturating_sub(cursor);
        if (lo as u128) > remaining || hi.map_or(false, |h| (h as u128) < remaining) {
            obs.fail("size_hint-brackets-remaining", format!("{when}: size_hint ({lo}, {:?}) but {remaining} items remain (cursor {cursor} of {total})", hi));
        }
    };
    hint_check(&it, cursor, obs, "initially");
    for (n, a) in hist.iter().enumerate() {
        let got: Option<u32> = match a {
            IAct::Next => it.next(),
            IAct::Nth(k) => {
                let k: u128 = k.parse().unwrap();
                cursor = (cursor + k).min(usize::MAX as u128);
                it.nth(k as usize)
            }
        }
        .map(|r| r.into_inner().into());
        let want = model_load(&init.data, init.bpp, init.be, cursor);
        if want.is_some() {
            cursor += 1;
        }
        if n + 1 == hist.len() {
            obs.nontrivial_if(want.is_some());
            obs.class_if(want.is_none(), "iterator-exhausted");
            obs.class_if(matches!(a, IAct::Nth(k) if k != "0") && want.is_some(), "nth-skips");
        }
        if got != want {
            obs.fail("iterator-yields-load(cursor)", format!("step {n} ({:?}): got {:?}, load(model cursor) {:?}", a, got, want));
            return;
        }
        hint_check(&it, cursor, obs, &format!("after step {n}"));
    }
    // from the position reached, the terminal consumers deliver what repeated next() would: the items load(cursor..)
    let rest: Vec<u32> = (cursor..total).map_while(|i| model_load(&init.data, init.bpp, init.be, i)).collect();
    let rebuild = || {
        let mut it = RawDataSlice::<R, BO>::new(&init.data).into_iter();
        for a in hist {
            match a {
                IAct::Next => {
                    it.next();
                }
                IAct::Nth(k) => {
                    it.nth(k.parse::<u128>().unwrap() as usize);
                }
            }
        }
        it
    };
    let conv = |r: R| -> u32 { r.into_inner().into() };
    let last = rebuild().last().map(conv);
    let count = rebuild().count();
    let folded: Vec<u32> = rebuild().fold(vec![], |mut v, r| {
        v.push(conv(r));
        v
    });
    let mut looped = vec![];
    let mut it2 = rebuild();
    while let Some(r) = it2.next() {
        looped.push(conv(r));
        if looped.len() > rest.len() + 2 {
            break;
        }
    }
    if last != rest.last().copied() || count != rest.len() || folded != rest || looped != rest {
        obs.fail("terminal-consumers-agree-with-next", format!("after {:?} (model cursor {cursor} of {total}): {} items remain; last() = {:?} (expected {:?}), count() = {count}, fold yields {} items, a next() loop {}", hist, rest.len(), last, rest.last(), folded.len(), looped.len()));
    }
}

impl Model for IM {
    type State = ISt;
    type Init = IInit;
    type Action = IAct;
    fn init(&self, _i: &IInit) -> ISt {
        ISt { hist: vec![], cursor: 0 }
    }
    fn actions(&self, _i: &IInit, _s: &ISt, _d: usize) -> Vec<IAct> {
        let mut v = vec![IAct::Next];
        for k in ["0", "1", "2", "7", &usize::MAX.to_string()] {
            v.push(IAct::Nth(k.to_string()));
        }
        v
    }
    fn step(&self, i: &IInit, s: &ISt, a: &IAct, obs: &mut Obs) -> ISt {
        // the real iterator cannot be cloned: the history is re-executed on a fresh one
        let mut hist = s.hist.clone();
        hist.push(a.clone());
        with_raw_types!(i.bpp, i.be, R, BO, { iter_replay::<R, BO>(i, &hist, obs) });
        ISt { hist, cursor: 0 }
    }
    fn key(&self, s: &ISt) -> u64 {
        // every action sequence is its own state (no merging)
        let mut h = std::collections::hash_map::DefaultHasher::new();
        use std::hash::{Hash, Hasher};
        s.hist.hash(&mut h);
        let _ = s.cursor;
        h.finish()
    }
}

fn store_cases(tier: Tier) -> Vec<SCase> {
    let mut v = vec![];
    let mut wrap: Vec<u128> = vec![1u128 << 62, 1u128 << 63, usize::MAX as u128, usize::MAX as u128 - 1];
    // around every index at which index * bytes-per-pixel (or index / pixels-per-byte arithmetic) reaches usize::MAX
    for d in [2u128, 3, 4, 8] {
        for k in 0..=2u128 {
            wrap.push((usize::MAX as u128) / d + k);
            wrap.push((usize::MAX as u128) / d - k);
            wrap.push((usize::MAX as u128 - k) / d);
        }
    }
    wrap.sort();
    wrap.dedup();
    for bpp in BPPS {
        for be in [false, true] {
            for len in 0..=tier.pick(10, 12) {
                let total = if bpp < 8 { len * 8 / bpp as usize } else { len / (bpp as usize / 8) };
                let mut idxs: Vec<u128> = (0..=total as u128 + 2).collect();
                idxs.extend(wrap.iter().copied());
                for index in idxs {
                    for bg in 0..4u8 {
                        let all = bpp == 16 && bg == 3 && ((len == 5 && index == 1) || (tier.is_thorough() && len == 8 && index <= 4));
                        v.push(SCase { bpp, be, len, index: index.to_string(), bg, values: all as u8 });
                    }
                }
            }
        }
    }
    v
}

fn run_part(run: &mut Run) {
    let tier = run.tier;
    run.sweep_vec(
        "store-load",
        "7 raw types x 2 data orders x buffer lengths 0..=8 (thorough 12) x every index up to two past the end plus 7 wrap-around indices x 4 backgrounds; inside each case every value (<= 8 bit: all; 16 bit: all for selected cases, else boundary set; 24/32 bit: 0, max, walking ones/zeros, byte-distinct patterns)",
        || store_cases(tier),
        check_store,
    );
    let mut inits = vec![];
    for bpp in BPPS {
        for be in [false, true] {
            for len in 0..=tier.pick(7, 9) {
                inits.push(IInit { bpp, be, data: egverif::imgs::pattern(0, len) });
            }
        }
    }
    let depth = tier.pick(4, 5);
    let stats = run.explore("iterator", "RawDataSlice iteration: all sequences of next()/nth(k), k in {0,1,2,7,usize::MAX}, on buffers of length 0..=6 (thorough 9) for 7 raw types x 2 orders", &IM, inits.clone(), depth);
    if tier.is_thorough() {
        run.cross_check_stateright("iterator", std::sync::Arc::new(IM), inits, depth, &stats);
    }
}

fn main() {
    egverif::fw::main(Prop {
        id: "C11",
        level: "model_checking",
        rule: "store/load: every (type, order, buffer length, index, background) of the listed product, with every listed value inside the case (counter store_load_evaluations; each value built by from_u32 from the value itself and from the value with all higher bits set), compared with a bit-level model written from the documented layout; iterator: explicit-state search over all next()/nth(k) sequences to the depth bound (each sequence is its own state), every item compared with load(model cursor), size_hint checked at every state, and from every state last(), count(), fold and a next() loop (each on a re-executed iterator) compared with load(cursor..); the whole domain is run in the overflow-checked and in the plain release build",
        assumptions: &["layout model written from the documentation, independent of the library's bit_position", "bounded buffer lengths and depth; 24/32-bit values are a boundary set"],
        parts: |_| vec![PartSpec::new("checked", "verif"), PartSpec::new("unchecked", "release")],
        run_part,
        required_classes: |_| vec!["index-in-range", "index-just-past-the-end", "wrap-around-index", "big-endian-lsb0", "from_u32-with-excess-bits", "iterator-exhausted", "nth-skips"],
        crash_is_verdict: false,
    })
}
