//! C07 Rendering commutes with translation
use egverif::catalog::*;
use egverif::fw::*;
use egverif::imgs::*;
use egverif::targets::*;
use egverif::texts::*;
use egverif::{with_area_primitive, with_image, with_primitive, with_styled};
use embedded_graphics::image::{Image, ImageDrawable};
use embedded_graphics::pixelcolor::Rgb565;
use embedded_graphics::prelude::*;
use embedded_graphics::primitives::Rectangle;
use serde::{Deserialize, Serialize};

type C = Rgb565;

#[derive(Clone, Debug, PartialEq, Eq, Hash, Serialize, Deserialize)]
struct Case {
    shape: Shape,
    sty: Sty,
    d: P2,
}

fn render<D: Drawable<Color = C>>(d: &D) -> Map<C> {
    let mut a = RecD::<C>::new();
    d.draw(&mut a).map_err(|_| ()).unwrap();
    a.map
}

fn check_prim(case: &Case, obs: &mut Obs) {
    let sty = case.sty;
    let d = Point::new(case.d.0, case.d.1);
    // styled: pixel map, styled bounding box, translate_mut
    with_styled!(&case.shape, sty.build::<C>(), C, |s| {
        let base = render(&s);
        let moved = s.translate(d);
        let got = render(&moved);
        let want = shift_map(&base, d.x, d.y);
        obs.outcome(&base);
        obs.nontrivial_if(!base.is_empty());
        obs.class(case.shape.kind());
        obs.class_if(sty.w > 1 && sty.stroke && matches!(case.shape, Shape::Tri { .. } | Shape::Polyline { .. }), "thick-triangle-or-polyline");
        if !base.is_empty() {
            let (minx, maxx) = (base.keys().map(|k| k.0).min().unwrap(), base.keys().map(|k| k.0).max().unwrap());
            let (miny, maxy) = (base.keys().map(|k| k.1).min().unwrap(), base.keys().map(|k| k.1).max().unwrap());
            obs.class_if((minx < 0) != (minx + d.x < 0) || (maxx < 0) != (maxx + d.x < 0), "moved-across-y-axis");
            obs.class_if((miny < 0) != (miny + d.y < 0) || (maxy < 0) != (maxy + d.y < 0), "moved-across-x-axis");
        }
        if got != want {
            obs.fail("draw(translate(d))==shift(draw,d)", format!("translate: {}", map_diff(&got, &want)));
        }
        let mut m = s;
        m.translate_mut(d);
        if m != moved {
            obs.fail("translate_mut==translate", format!("{:?} vs {:?}", m, moved));
        }
        // an already moved object moved again (and moved back): the second move starts from a non-initial object
        let e = Point::new(-5, 9);
        let twice = moved.translate(e);
        let mut twice_mut = moved;
        twice_mut.translate_mut(e);
        let direct = s.translate(d + e);
        if (twice != direct && render(&twice) != shift_map(&want, e.x, e.y)) || (twice_mut != direct && render(&twice_mut) != shift_map(&want, e.x, e.y)) {
            obs.fail("draw(translate(d))==shift(draw,d)", format!("moved by {:?}, then by {:?}: {:?} / {:?} instead of {:?}", case.d, (e.x, e.y), twice, twice_mut, direct));
        }
        let back = moved.translate(Point::zero() - d);
        if back != s && render(&back) != base {
            obs.fail("draw(translate(d))==shift(draw,d)", format!("moved by {:?} and back: {:?} instead of {:?}", case.d, back, s));
        }
        // a real display has a finite box: object and display window moved together must give the moved picture
        // inside the window; the windows lie just outside each side of the bare shape (only a stroke reaches them)
        // and across its top-left and bottom-right corners
        if sty.stroke && sty.w >= 1 && !base.is_empty() && (case.d == (-7, 5) || case.d == (3, -4) || case.d.0.abs() > 100) {
            let pb = with_primitive!(&case.shape, |p| p.bounding_box());
            let (x0, y0, w, h) = (pb.top_left.x, pb.top_left.y, pb.size.width as i32, pb.size.height as i32);
            let wins = [(x0 - 3, y0 - 3, 3, h + 6), (x0 + w, y0 - 3, 3, h + 6), (x0 - 3, y0 - 3, w + 6, 3), (x0 - 3, y0 + h, w + 6, 3), (x0 - 2, y0 - 2, 4, 4), (x0 + w - 2, y0 + h - 2, 4, 4)];
            obs.class("shape-and-window-moved-together");
            for (k, wn) in wins.iter().enumerate() {
                let win = rect(wn.0, wn.1, wn.2.max(0) as u32, wn.3.max(0) as u32);
                let mwin = rect(wn.0 + d.x, wn.1 + d.y, wn.2.max(0) as u32, wn.3.max(0) as u32);
                let ins = |m: &Map<C>, r: &Rectangle| -> Map<C> { m.iter().filter(|(k, _)| r.contains(Point::new(k.0, k.1))).map(|(k, v)| (*k, *v)).collect() };
                let (a, b) = if k % 2 == 0 {
                    let (mut a, mut b) = (RecD::<C>::with_box(win), RecD::<C>::with_box(mwin));
                    let _ = s.draw(&mut a);
                    let _ = moved.draw(&mut b);
                    (ins(&a.map, &win), ins(&b.map, &mwin))
                } else {
                    let (mut a, mut b) = (RecN::<C>::with_box(win), RecN::<C>::with_box(mwin));
                    let _ = s.draw(&mut a);
                    let _ = moved.draw(&mut b);
                    (ins(&a.map, &win), ins(&b.map, &mwin))
                };
                if a != ins(&base, &win) {
                    obs.fail("draw(translate(d))==shift(draw,d)-inside-a-target-window", format!("unmoved shape in window {:?}: {}", wn, map_diff(&a, &ins(&base, &win))));
                    break;
                }
                if b != shift_map(&a, d.x, d.y) {
                    obs.fail("draw(translate(d))==shift(draw,d)-inside-a-target-window", format!("window {:?} moved with the shape: {}", wn, map_diff(&b, &shift_map(&a, d.x, d.y))));
                    break;
                }
            }
        }
        let bb = s.bounding_box();
        if !bb.is_zero_sized() {
            let tb = moved.bounding_box();
            if tb.top_left != bb.top_left + d || tb.size != bb.size {
                obs.fail("styled-bounding-box-shifts", format!("{:?} moved by {:?} gives {:?}", rt(&bb), case.d, rt(&tb)));
            }
        }
    });
    // moving the anchoring points (polyline: its vertices) instead of calling translate
    if matches!(case.shape, Shape::Polyline { .. }) {
        let other = case.shape.moved(d.x, d.y);
        let base = with_styled!(&case.shape, sty.build::<C>(), C, |s| render(&s));
        let got = with_styled!(&other, sty.build::<C>(), C, |s| render(&s));
        let want = shift_map(&base, d.x, d.y);
        if got != want {
            obs.fail("draw(moved-vertices)==shift(draw,d)", format!("vertices moved: {}", map_diff(&got, &want)));
        }
    }
    // unstyled primitive: bounding box, points(), translate_mut (once per shape: only for the first style)
    if sty.w == 0 && !sty.fill && !sty.stroke {
        with_primitive!(&case.shape, |p| {
            let moved = p.translate(d);
            let mut m = p;
            m.translate_mut(d);
            if m != moved {
                obs.fail("translate_mut==translate", format!("{:?} vs {:?}", m, moved));
            }
            let bb = p.bounding_box();
            if !bb.is_zero_sized() {
                let tb = moved.bounding_box();
                if tb.top_left != bb.top_left + d || tb.size != bb.size {
                    obs.fail("bounding-box-shifts", format!("{:?} moved by {:?} gives {:?}", rt(&bb), case.d, rt(&tb)));
                }
            }
            let a: Vec<Point> = p.points().take(100_000).map(|q| q + d).collect();
            let b: Vec<Point> = moved.points().take(100_000).collect();
            obs.class("points-compared");
            if a != b {
                obs.fail("points-shift", format!("|points|={} |moved points|={}", a.len(), b.len()));
            }
        });
        with_area_primitive!(
            &case.shape,
            |p| {
                let moved = p.translate(d);
                let bb = p.bounding_box();
                let mut bad = None;
                for y in bb.top_left.y - 2..bb.top_left.y + bb.size.height as i32 + 2 {
                    for x in bb.top_left.x - 2..bb.top_left.x + bb.size.width as i32 + 2 {
                        let q = Point::new(x, y);
                        if p.contains(q) != moved.contains(q + d) {
                            bad = Some(q);
                        }
                    }
                }
                obs.class("contains-compared");
                if let Some(q) = bad {
                    obs.fail("contains-shifts", format!("contains({:?}) != moved.contains({:?})", q, q + d));
                }
            },
            ()
        );
    }
}

/// dotted rectangles (the only non-solid stroke style)
fn check_dotted(case: &Case, obs: &mut Obs) {
    let d = Point::new(case.d.0, case.d.1);
    let mut style = case.sty.build::<C>();
    style.stroke_style = embedded_graphics::primitives::StrokeStyle::Dotted;
    if let Shape::Rect { x, y, w, h } = &case.shape {
        let s = mk_rect(*x, *y, *w, *h).into_styled(style);
        let base = render(&s);
        let moved = s.translate(d);
        let got = render(&moved);
        let want = shift_map(&base, d.x, d.y);
        obs.outcome(&base);
        obs.nontrivial_if(!base.is_empty());
        obs.class("dotted-rectangle");
        if got != want {
            obs.fail("draw(translate(d))==shift(draw,d)", format!("dotted rectangle: {}", map_diff(&got, &want)));
        }
        let bb = s.bounding_box();
        if !bb.is_zero_sized() {
            let tb = moved.bounding_box();
            if tb.top_left != bb.top_left + d || tb.size != bb.size {
                obs.fail("styled-bounding-box-shifts", format!("{:?} moved by {:?} gives {:?}", rt(&bb), case.d, rt(&tb)));
            }
        }
    }
}

#[derive(Clone, Debug, PartialEq, Eq, Hash, Serialize, Deserialize)]
struct TCase {
    t: TextCase,
    d: P2,
}
fn check_text(case: &TCase, obs: &mut Obs) {
    let d = Point::new(case.d.0, case.d.1);
    let t = case.t.build::<C>();
    let mut a = RecD::<C>::new();
    let ra = t.draw(&mut a).unwrap();
    let moved = t.translate(d);
    let mut b = RecD::<C>::new();
    let rb = moved.draw(&mut b).unwrap();
    obs.outcome(&a.map);
    obs.nontrivial_if(!a.map.is_empty());
    obs.class("text");
    let want = shift_map(&a.map, d.x, d.y);
    if b.map != want {
        obs.fail("draw(translate(d))==shift(draw,d)", format!("text: {}", map_diff(&b.map, &want)));
    }
    if rb != ra + d {
        obs.fail("text-next-position-shifts", format!("{:?} + {:?} != {:?}", ra, d, rb));
    }
    let mut m = t;
    m.translate_mut(d);
    if m != moved {
        obs.fail("translate_mut==translate", "text".to_string());
    }
    // text and display window moved together: same picture inside the window, returned position moved by d
    {
        let p0 = t.position;
        obs.class("text-and-window-moved-together");
        for (k, wn) in [(p0.x - 2, p0.y - 9, 9u32, 12u32), (p0.x - 20, p0.y - 3, 22, 7), (p0.x + 3, p0.y - 30, 4, 60)].iter().enumerate() {
            let win = rect(wn.0, wn.1, wn.2, wn.3);
            let mwin = rect(wn.0 + d.x, wn.1 + d.y, wn.2, wn.3);
            let ins = |m: &Map<C>, r: &Rectangle| -> Map<C> { m.iter().filter(|(k, _)| r.contains(Point::new(k.0, k.1))).map(|(k, v)| (*k, *v)).collect() };
            let (ia, ib, pa, pb) = if k % 2 == 0 {
                let (mut wa, mut wb) = (RecD::<C>::with_box(win), RecD::<C>::with_box(mwin));
                let (pa, pb) = (t.draw(&mut wa).unwrap(), moved.draw(&mut wb).unwrap());
                (ins(&wa.map, &win), ins(&wb.map, &mwin), pa, pb)
            } else {
                let (mut wa, mut wb) = (RecN::<C>::with_box(win), RecN::<C>::with_box(mwin));
                let (pa, pb) = (t.draw(&mut wa).unwrap(), moved.draw(&mut wb).unwrap());
                (ins(&wa.map, &win), ins(&wb.map, &mwin), pa, pb)
            };
            if ia != ins(&a.map, &win) || ib != shift_map(&ia, d.x, d.y) {
                obs.fail("draw(translate(d))==shift(draw,d)-inside-a-target-window", format!("text, window {:?} moved with it: {}", wn, map_diff(&ib, &shift_map(&ia, d.x, d.y))));
            }
            if pa != ra || pb != ra + d {
                obs.fail("text-next-position-shifts", format!("window {:?}: unmoved text returns {:?} (unbounded target {:?}), moved text {:?}", wn, pa, ra, pb));
            }
        }
    }
    // moved again from the moved place, and moved back
    let e = Point::new(-5, 9);
    let twice = moved.translate(e);
    let mut twice_mut = moved;
    twice_mut.translate_mut(e);
    if twice != t.translate(d + e) || twice_mut != twice {
        let mut c2 = RecD::<C>::new();
        let r2 = twice.draw(&mut c2).unwrap();
        let mut c3 = RecD::<C>::new();
        let r3 = twice_mut.draw(&mut c3).unwrap();
        let w2 = shift_map(&want, e.x, e.y);
        if c2.map != w2 || c3.map != w2 || r2 != ra + d + e || r3 != r2 {
            obs.fail("draw(translate(d))==shift(draw,d)", format!("text moved by {:?} and then by {:?}", case.d, (e.x, e.y)));
        }
    }
    let back = moved.translate(Point::zero() - d);
    if back != t {
        let mut c2 = RecD::<C>::new();
        let r2 = back.draw(&mut c2).unwrap();
        if c2.map != a.map || r2 != ra {
            obs.fail("draw(translate(d))==shift(draw,d)", format!("text moved by {:?} and back", case.d));
        }
    }
    let bb = t.bounding_box();
    if !bb.is_zero_sized() {
        let tb = moved.bounding_box();
        if tb.top_left != bb.top_left + d || tb.size != bb.size {
            obs.fail("bounding-box-shifts", format!("text {:?} moved by {:?} gives {:?}", rt(&bb), case.d, rt(&tb)));
        }
    }
}

#[derive(Clone, Debug, PartialEq, Eq, Hash, Serialize, Deserialize)]
struct ICase {
    i: ImgCase,
    d: P2,
}
fn img_check<I: ImageDrawable>(img: &I, case: &ICase, obs: &mut Obs)
where
    I::Color: std::hash::Hash + core::fmt::Debug,
{
    let d = Point::new(case.d.0, case.d.1);
    let at = Point::new(case.i.at.0, case.i.at.1);
    let image = if case.i.center { Image::with_center(img, at) } else { Image::new(img, at) };
    let mut a = RecD::<I::Color>::new();
    image.draw(&mut a).unwrap();
    let moved = image.translate(d);
    let mut b = RecD::<I::Color>::new();
    moved.draw(&mut b).unwrap();
    obs.outcome(&a.map);
    obs.nontrivial_if(!a.map.is_empty());
    obs.class("image");
    let want = shift_map(&a.map, d.x, d.y);
    if b.map != want {
        obs.fail("draw(translate(d))==shift(draw,d)", format!("image: {}", map_diff(&b.map, &want)));
    }
    let bb = image.bounding_box();
    // the same relation on targets whose bounding box is a window cutting through the moved image (over its
    // top-left and over its bottom-right part): what arrives inside the window is the shifted image
    if !bb.is_zero_sized() {
        let mb = moved.bounding_box();
        let half = Point::new((mb.size.width / 2) as i32 + 1, (mb.size.height / 2) as i32 + 1);
        for win in [Rectangle::new(mb.top_left - half, mb.size), Rectangle::new(mb.top_left + half - Point::new(1, 1), mb.size)] {
            let mut w = RecD::<I::Color>::with_box(win);
            moved.draw(&mut w).unwrap();
            let inside = |m: &Map<I::Color>| -> Map<I::Color> { m.iter().filter(|(k, _)| win.contains(Point::new(k.0, k.1))).map(|(k, v)| (*k, *v)).collect() };
            obs.class("image-through-a-target-window");
            if inside(&w.map) != inside(&want) {
                obs.fail("draw(translate(d))==shift(draw,d)-inside-a-target-window", format!("image, window {:?}: {}", rt(&win), map_diff(&inside(&w.map), &inside(&want))));
            }
            // and behind the library's own clipped() adapter (which crops the colour stream itself)
            {
                use embedded_graphics::draw_target::DrawTargetExt;
                let mut parent = RecN::<I::Color>::new();
                moved.draw(&mut parent.clipped(&win)).unwrap();
                if parent.map != inside(&want) {
                    obs.fail("draw(translate(d))==shift(draw,d)-inside-a-target-window", format!("image behind clipped({:?}): {}", rt(&win), map_diff(&parent.map, &inside(&want))));
                }
            }
        }
    }
    let mut m = image;
    m.translate_mut(d);
    let mut c = RecD::<I::Color>::new();
    m.draw(&mut c).unwrap();
    if c.map != b.map || m.bounding_box() != moved.bounding_box() {
        obs.fail("translate_mut==translate", "image".to_string());
    }
    // moved again from the moved place (both ways), and moved back
    {
        let e = Point::new(-5, 9);
        let w2 = shift_map(&want, e.x, e.y);
        let mut c2 = RecD::<I::Color>::new();
        moved.translate(e).draw(&mut c2).unwrap();
        let mut mm = m;
        mm.translate_mut(e);
        let mut c3 = RecD::<I::Color>::new();
        mm.draw(&mut c3).unwrap();
        let mut c4 = RecD::<I::Color>::new();
        moved.translate(Point::zero() - d).draw(&mut c4).unwrap();
        if c2.map != w2 || c3.map != w2 || c4.map != a.map {
            obs.fail("draw(translate(d))==shift(draw,d)", format!("image moved by {:?} and then by {:?} / back", case.d, (e.x, e.y)));
        }
    }
    if !bb.is_zero_sized() {
        let tb = moved.bounding_box();
        if tb.top_left != bb.top_left + d || tb.size != bb.size {
            obs.fail("bounding-box-shifts", format!("image {:?} moved by {:?} gives {:?}", rt(&bb), case.d, rt(&tb)));
        }
    }
}
fn check_img(case: &ICase, obs: &mut Obs) {
    with_image!(&case.i, IC, |img| img_check(img, case, obs), panic!("bad image length"))
}

fn offsets(tier: Tier) -> Vec<P2> {
    let mut v = vec![(-7, 5), (3, -4), (-1, -1), (64, 0)];
    if tier.is_thorough() {
        for x in -3..=3 {
            for y in -3..=3 {
                if (x, y) != (0, 0) && !v.contains(&(x, y)) {
                    v.push((x, y));
                }
            }
        }
    }
    v
}

fn with_offsets(shapes: Vec<Shape>, stys: &[Sty], ds: &[P2]) -> Vec<Case> {
    let mut v = Vec::with_capacity(shapes.len() * stys.len() * ds.len());
    for s in &shapes {
        for st in stys {
            for d in ds {
                v.push(Case { shape: s.clone(), sty: *st, d: *d });
            }
        }
    }
    v
}


/// arcs and sectors only (the family whose trigonometry changes with the `fixed_point` feature)
fn angle_shapes(pos: P2) -> Vec<Shape> {
    shape_catalogue(false, pos).into_iter().filter(|s| matches!(s, Shape::Arc { .. } | Shape::Sector { .. })).collect()
}

fn run_part(run: &mut Run) {
    let tier = run.tier;
    let t = tier.is_thorough();
    let ds = offsets(tier);
    match run.part.as_str() {
        "shapes" => {
            run.sweep_vec("shapes", "shape catalogue x S(W) x offsets", || with_offsets(shape_catalogue(false, (-2, -3)), &styles(tier.pick(4, 6)), &ds), check_prim);
            run.sweep_vec("shapes-far-offsets", "shape catalogue x S(2) x offsets of about +-1000 px (each moves the shape into a different quadrant far from the origin)", || with_offsets(shape_catalogue(false, (-2, -3)), &styles(2), &[(1000, -1000), (-1003, 997), (-500, -500), (800, 600)]), check_prim);
            run.sweep_vec("display-scale", "display-scale catalogue (every primitive kind, 200..=320 px plus one 1024 px shape, at three positions) x 6 styles (widths 0, 1, 3, 20, 64, 300) x offsets (1,-1) and (-1000,1000)", || with_offsets(display_scale_catalogue(), &display_scale_styles(), &[(1, -1), (-1000, 1000)]), check_prim);
        }
        "angles-fixed-point" => {
            run.sweep_vec("arcs-sectors-fixed-point", "arcs and sectors of the catalogue x S(4) x offsets in the fixed_point build", || with_offsets(angle_shapes((-2, -3)), &styles(4), &ds), check_prim);
        }
        "dotted" => {
            run.sweep_vec("dotted-rectangles", "rectangles w,h in 0..=16 plus larger ones (31x31, 41x17, 12x40, 31x7, 26x33) x stroke widths 1..=9 x 3 alignments x fill on/off with StrokeStyle::Dotted x offsets, straddling the origin", || {
                let mut sh = vec![];
                for w in 0..=16 {
                    for h in 0..=16 {
                        sh.push(Shape::Rect { x: -5, y: -6, w, h });
                    }
                }
                for (w, h) in [(31, 31), (41, 17), (12, 40), (31, 7), (26, 33), (50, 50)] {
                    sh.push(Shape::Rect { x: -47, y: -13, w, h });
                    sh.push(Shape::Rect { x: -20, y: -21, w, h });
                }
                let mut st = vec![];
                for w in 1..=9u32 {
                    for al in 0..3u8 {
                        for fill in [false, true] {
                            st.push(Sty { fill, stroke: true, w, al, same: false });
                        }
                    }
                }
                with_offsets(sh, &st, &ds)
            }, check_dotted);
        }
        "triangles" => {
            run.sweep_vec("triangles", "all vertex triples of a 5x5 grid stride 2 (thorough: plus 6x6 stride 1 with S(4)) x S(W) x offsets",
                || with_offsets(tri_grid(5, 2, -4, -3), &styles(tier.pick(5, 6)), &ds[..tier.pick(2, ds.len())]), check_prim);
            if t {
                run.sweep_vec("triangles-stride1", "all vertex triples of a 6x6 grid stride 1 x S(4) x 4 offsets", || with_offsets(tri_grid(6, 1, -3, -2), &styles(4), &ds[..4]), check_prim);
            }
        }
        "polylines" => {
            run.sweep_vec("polylines", "polylines with 0..=4 (thorough 5) vertices on a 3x3 grid stride 3, translate field zero/non-zero x stroke styles x offsets", || {
                let sh = polyline_catalogue(tier.pick(4, 5), 3, 3, (-3, -2));
                let st: Vec<Sty> = styles(tier.pick(5, 6)).into_iter().filter(|s| !s.fill || s.w <= 1).collect();
                with_offsets(sh, &st, &ds[..tier.pick(2, 6)])
            }, check_prim);
        }
        "images-text" => {
            run.sweep_vec("text", "fonts x 11 strings x 16 decorations x 4 baselines x 3 alignments x 2 line heights x offsets", || {
                let fonts: Vec<usize> = if t { (0..FONTS.len()).step_by(11).collect() } else { vec![font_index("ascii::FONT_5X8"), font_index("iso_8859_15::FONT_9X15_BOLD")] };
                let mut v = vec![];
                for tc in text_catalogue(&fonts, &CATALOGUE_STRINGS, &[(1, 100), (0, 9)], (-3, 5)) {
                    for d in &ds[..tier.pick(2, 4)] {
                        v.push(TCase { t: tc.clone(), d: *d });
                    }
                }
                v
            }, check_text);
            run.sweep_vec("text-custom-fonts", "three synthetic fonts with character spacing x 7 strings x 16 decorations x 4 baselines x 3 alignments x 2 offsets", || {
                let mut v = vec![];
                for tc in text_catalogue_named(&CUSTOM_FONTS, &CUSTOM_STRINGS, &[(1, 100)], (-3, 5)) {
                    for d in &ds[..2] {
                        v.push(TCase { t: tc.clone(), d: *d });
                    }
                }
                v
            }, check_text);
            run.sweep_vec("images", "images 7 raw widths x sizes 0..=4x0..=3 x {none, inner, overlapping, nested} sub-images x new/with_center x offsets", || {
                let mut v = vec![];
                for bpp in BPPS {
                    for w in 0..=4 {
                        for h in 0..=3 {
                            let data = pattern(3, required_len(w, h, bpp));
                            for (sub, sub2) in [(None, None), (Some((1, 0, 2, 2)), None), (Some((-1, 1, 9, 9)), None), (Some((0, 0, 3, 3)), Some((1, 1, 1, 2)))] {
                                for (at, center) in [((-2, 3), false), ((1, -1), true)] {
                                    for d in &ds {
                                        v.push(ICase { i: ImgCase { bpp, be: bpp % 3 == 1, w, h, data: data.clone(), sub, sub2, at, center }, d: *d });
                                    }
                                }
                            }
                        }
                    }
                }
                v
            }, check_img);
        }
        p => panic!("unknown part {p}"),
    }
}

fn main() {
    egverif::fw::main(Prop {
        id: "C07",
        level: "exploration",
        rule: "every (drawable, style, offset d) of the listed product once; non-trivial = the untranslated drawable draws at least one pixel; the pixel map of x.translate(d) must equal the map of x shifted by d; non-empty bounding boxes, points() sequences and contains() (box grown by 2) must shift by d; translate_mut must equal translate; polylines are also moved by moving their vertices; text must return a next position shifted by d",
        assumptions: &["bounded to the listed catalogue and offsets (objects straddle the origin so the offsets move them across both axes)"],
        parts: |_| vec![PartSpec::new("shapes", "verif"), PartSpec::new("triangles", "verif"), PartSpec::new("polylines", "verif"), PartSpec::new("images-text", "verif"), PartSpec::new("dotted", "verif"), PartSpec::new("angles-fixed-point", "verif_fp")],
        run_part,
        required_classes: |_| vec!["rect", "circle", "ellipse", "rrect", "triangle", "line", "arc", "sector", "polyline", "thick-triangle-or-polyline", "moved-across-y-axis", "moved-across-x-axis", "points-compared", "contains-compared", "text", "image", "image-through-a-target-window", "dotted-rectangle", "shape-and-window-moved-together", "text-and-window-moved-together"],
        crash_is_verdict: false,
    })
}
