//! C17 Lines connect their end points and stay on the ideal line
use egverif::fw::*;
use egverif::targets::*;
use embedded_graphics::pixelcolor::BinaryColor;
use embedded_graphics::prelude::*;
use embedded_graphics::primitives::{Line, PrimitiveStyleBuilder, StrokeAlignment};
use serde::{Deserialize, Serialize};
use std::collections::BTreeSet;

#[derive(Clone, Debug, PartialEq, Eq, Hash, Serialize, Deserialize)]
struct Case {
    a: (i32, i32),
    b: (i32, i32),
    widths: Vec<u32>,
}

const EPS: f64 = 1e-9;

fn check(c: &Case, obs: &mut Obs) {
    let (x0, y0, x1, y1) = (c.a.0 as i64, c.a.1 as i64, c.b.0 as i64, c.b.1 as i64);
    let line = Line::new(Point::new(c.a.0, c.a.1), Point::new(c.b.0, c.b.1));
    let (dx, dy) = (x1 - x0, y1 - y0);
    let major = dx.abs().max(dy.abs());
    let len2 = dx * dx + dy * dy;
    let p: Vec<(i64, i64)> = line.points().take(100_000).map(|q| (q.x as i64, q.y as i64)).collect();
    obs.outcome(&p);
    obs.mark_nontrivial();
    if p.len() <= 20 {
        iter_protocol("Line::points()", 20, || line.points(), obs);
        for w in [2u32, 3] {
            let st = PrimitiveStyleBuilder::new().stroke_color(BinaryColor::On).stroke_width(w).build();
            iter_protocol("Styled<Line>::pixels()", 200, || line.into_styled(st).pixels(), obs);
        }
    }
    obs.class_if(len2 == 0, "zero-length");
    obs.class_if(dx == 0 && dy != 0, "vertical");
    obs.class_if(dy == 0 && dx != 0, "horizontal");
    obs.class_if(dx.abs() == dy.abs() && dx != 0, "diagonal");
    obs.class_if(major > 40, "longer-than-40");
    if dx != 0 && dy != 0 && dx.abs() != dy.abs() {
        let oct = match (dx > 0, dy > 0, dx.abs() > dy.abs()) {
            (true, true, true) => "octant-0",
            (true, true, false) => "octant-1",
            (false, true, false) => "octant-2",
            (false, true, true) => "octant-3",
            (false, false, true) => "octant-4",
            (false, false, false) => "octant-5",
            (true, false, false) => "octant-6",
            (true, false, true) => "octant-7",
        };
        obs.class(oct);
    }
    // thin line
    if p.first() != Some(&(x0, y0)) {
        obs.fail("points-start-at-start", format!("first point {:?}", p.first()));
    }
    if p.last() != Some(&(x1, y1)) {
        obs.fail("points-end-at-end", format!("last point {:?}", p.last()));
    }
    // the same line described by start and delta
    if dx.abs() < 1 << 30 && dy.abs() < 1 << 30 {
        let wd = Line::with_delta(Point::new(c.a.0, c.a.1), Point::new(dx as i32, dy as i32));
        let mut it = wd.points();
        let first = it.next().map(|q| (q.x as i64, q.y as i64));
        let last = it.take(100_000).last().map(|q| (q.x as i64, q.y as i64)).or(first);
        if first != Some((x0, y0)) {
            obs.fail("points-start-at-start", format!("line described by start and delta: first point {:?}", first));
        }
        if last != Some((x1, y1)) {
            obs.fail("points-end-at-end", format!("line described by start and delta: last point {:?}", last));
        }
    }
    if p.len() as i64 != major + 1 {
        obs.fail("points-count", format!("{} points, max(|dx|,|dy|)+1 = {}", p.len(), major + 1));
    }
    for w in p.windows(2) {
        let (sx, sy) = ((w[1].0 - w[0].0).abs(), (w[1].1 - w[0].1).abs());
        let (smaj, smin) = if dx.abs() >= dy.abs() { (sx, sy) } else { (sy, sx) };
        if smaj != 1 || smin > 1 {
            obs.fail("unit-steps", format!("step {:?} -> {:?}", w[0], w[1]));
            break;
        }
    }
    let mut worst_minor = 0i64;
    for q in &p {
        let cross = ((q.0 - x0) * dy - (q.1 - y0) * dx).abs();
        // Euclidean distance to the ideal line <= 1/2  <=>  4 cross^2 <= len^2
        if len2 > 0 && 4 * cross * cross > len2 {
            obs.fail("within-half-a-pixel-of-ideal-line", format!("point {:?}: distance {:.3}", q, cross as f64 / (len2 as f64).sqrt()));
            break;
        }
        worst_minor = worst_minor.max(cross);
    }
    if major > 0 {
        // statistic only: deviation along the minor axis in 1/1000 px
        obs.max("max_minor_axis_deviation_milli_px", (worst_minor * 1000 / major) as u64);
    }
    // stroked line
    let thin: BTreeSet<(i64, i64)> = p.iter().copied().collect();
    let len = (len2 as f64).sqrt();
    // every stroke alignment (documented as ignored for lines) must satisfy the clauses; long lines: Center only
    let alignments: &[StrokeAlignment] = if major > 300 { &[StrokeAlignment::Center] } else { &[StrokeAlignment::Center, StrokeAlignment::Inside, StrokeAlignment::Outside] };
    for (&w, &al) in c.widths.iter().flat_map(|w| alignments.iter().map(move |a| (w, a))) {
        let style = PrimitiveStyleBuilder::new().stroke_color(BinaryColor::On).stroke_width(w).stroke_alignment(al).build();
        let px: Vec<(i64, i64)> = line.into_styled(style).pixels().take(4_000_000).map(|q| (q.0.x as i64, q.0.y as i64)).collect();
        let w_al = format!("{w} {:?}", al);
        let w_al = w_al.as_str();
        let set: BTreeSet<(i64, i64)> = px.iter().copied().collect();
        obs.count("stroked_lines", 1);
        if set.len() != px.len() {
            obs.fail("no-pixel-twice", format!("w={w_al}: {} pixels, {} distinct", px.len(), set.len()));
        }
        if !thin.is_subset(&set) {
            obs.fail("contains-thin-line", format!("w={w_al}: {:?} missing", thin.difference(&set).next()));
        }
        if w == 1 && px != p {
            obs.fail("width-1-equals-points", format!("{} pixels vs {} points", px.len(), p.len()));
        }
        // the stroke as draw() delivers it: on an unbounded target, and on targets whose bounding box lies just
        // below / right of the thin line's box (so that only the stroke can reach into them)
        if major <= 40 {
            use embedded_graphics::primitives::Rectangle;
            let bb = line.bounding_box();
            let below = Rectangle::new(Point::new(bb.top_left.x - 2, bb.top_left.y + bb.size.height as i32), Size::new(bb.size.width + 4, 24));
            let right = Rectangle::new(Point::new(bb.top_left.x + bb.size.width as i32, bb.top_left.y - 2), Size::new(24, bb.size.height + 4));
            for tb in [None, Some(below), Some(right)] {
                let mut t = match tb {
                    None => RecD::<BinaryColor>::new(),
                    Some(b) => RecD::<BinaryColor>::with_box(b),
                };
                line.into_styled(style).draw(&mut t).unwrap();
                let keep = |q: &(i64, i64)| tb.map_or(true, |b| b.contains(Point::new(q.0 as i32, q.1 as i32)));
                let drawn: BTreeSet<(i64, i64)> = t.map.keys().map(|k| (k.0 as i64, k.1 as i64)).filter(|q| keep(q)).collect();
                let want: BTreeSet<(i64, i64)> = set.iter().copied().filter(|q| keep(q)).collect();
                obs.class_if(tb.is_some() && !want.is_empty(), "stroke-reaches-a-target-beside-the-thin-line");
                if drawn != want {
                    obs.fail("draw-delivers-the-stroke", format!("w={w_al}: target box {:?}: draw() leaves {} pixels inside it, pixels() has {} there", tb.map(|b| rt(&b)), drawn.len(), want.len()));
                }
            }
        }
        if len2 == 0 {
            continue;
        }
        let am = len / 2.0;
        let (mut lo, mut hi) = (f64::INFINITY, f64::NEG_INFINITY);
        let mut worst_perp = 0f64;
        let mut worst_over = 0f64;
        for q in &px {
            let cr = ((q.0 - x0) * dy - (q.1 - y0) * dx) as f64 / len;
            let al = ((q.0 - x0) * dx + (q.1 - y0) * dy) as f64 / len;
            worst_perp = worst_perp.max(cr.abs());
            let over = if al < 0.0 { -al } else if al > len { al - len } else { 0.0 };
            worst_over = worst_over.max(over);
            if (al - am).abs() <= 1.0 {
                lo = lo.min(cr);
                hi = hi.max(cr);
            }
        }
        if worst_perp > w as f64 / 2.0 + 2.5 + EPS {
            obs.fail("within-w/2+2.5-of-ideal-line", format!("w={w_al}: a pixel is {:.3} px from the ideal line", worst_perp));
        }
        if worst_over > 1.0 + EPS {
            obs.fail("within-one-pixel-of-the-ends", format!("w={w_al}: a pixel lies {:.3} px beyond an end", worst_over));
        }
        if len >= 2.0 {
            let width = if hi >= lo { hi - lo + 1.0 } else { 0.0 };
            if width + EPS < w as f64 - 1.0 {
                obs.fail("at-least-w-1-wide-at-the-middle", format!("w={w_al}: {:.3} px wide at the middle", width));
            }
            obs.max("max_perp_beyond_half_width_milli_px", ((worst_perp - w as f64 / 2.0).max(0.0) * 1000.0) as u64);
            obs.max("max_overshoot_milli_px", (worst_over * 1000.0) as u64);
        }
        if obs.violations.len() >= 6 {
            break;
        }
    }
}

fn cases(tier: Tier) -> Vec<Case> {
    let mut v = vec![];
    let t = tier.is_thorough();
    let r = tier.pick(8, 14);
    let widths: Vec<u32> = (1..=tier.pick(12, 20)).collect();
    let rows: Vec<i32> = (-r..=r).collect();
    for x0 in -r..=r {
        for &y0 in &rows {
            for x1 in -r..=r {
                for y1 in -r..=r {
                    v.push(Case { a: (x0, y0), b: (x1, y1), widths: widths.clone() });
                }
            }
        }
    }
    // long lines: boundary-value product (replaces "random long lines")
    let vals: Vec<i32> = if t { vec![0, 1, -1, 37, -37, 41, -41, 64, -64, 255, -255, 300, -300, 1000, -1000] } else { vec![0, 1, -1, 41, -41, 64, -64, 255, -255] };
    let starts: Vec<(i32, i32)> = if t { vec![(0, 0), (-3, 7), (511, -255)] } else { vec![(0, 0), (-3, 7)] };
    for &(sx, sy) in &starts {
        for &ex in &vals {
            for &ey in &vals {
                v.push(Case { a: (sx, sy), b: (sx + ex, sy + ey), widths: vec![1, 2, 3, 5, 8, 16, 31] });
            }
        }
    }
    // very long lines (longer than 46340 px: dx^2 + dy^2 exceeds 31 bits), thin strokes only
    for (ex, ey) in [(46341, 0), (0, -46341), (50000, 20000), (-30000, -40000), (65535, 1), (-1, 65536), (32768, 32767), (-70000, 70001)] {
        v.push(Case { a: (-3, 7), b: (-3 + ex, 7 + ey), widths: vec![1, 2, 3] });
    }
    // lengths around the thresholds 40 and 50 in all directions
    for l in [39, 40, 41, 42, 49, 50, 51, 52, 60] {
        for m in [0, 1, 7, 20, l - 1, l] {
            for (sx, sy) in [(1, 1), (-1, 1), (1, -1), (-1, -1)] {
                v.push(Case { a: (2, -3), b: (2 + sx * l, -3 + sy * m), widths: vec![1, 2, 3, 4, 6, 9] });
                v.push(Case { a: (2, -3), b: (2 + sx * m, -3 + sy * l), widths: vec![1, 2, 3, 4, 6, 9] });
            }
        }
    }
    v
}

fn run_part(run: &mut Run) {
    let tier = run.tier;
    run.sweep_vec(
        "lines",
        "all lines with end points in [-8,8]^2 (thorough [-14,14]^2) x stroke widths 1..=12 (20), plus boundary-value long lines {0,+-1,+-41,+-64,+-255} (thorough also +-37,+-300,+-1000) x widths {1,2,3,5,8,16,31}, plus lengths around 40 and 50 in all octants, plus eight lines longer than 46340 px with widths 1..=3",
        || cases(tier),
        check,
    );
}

fn main() {
    egverif::fw::main(Prop {
        id: "C17",
        level: "exploration",
        rule: "every line of the listed finite domain once (every stroke width of the case's list x 3 stroke alignments inside, counter stroked_lines); thin line: first/last point, count, unit major steps, minor steps <= 1, Euclidean distance to the ideal line <= 1/2 (exact integer test); stroked line: superset of the thin line, no duplicates, distance <= w/2+2.5, overshoot <= 1, width at the middle >= w-1 (perpendicular extent of pixel centres whose projection is within 1 px of the midpoint, plus one pixel), width 1 equals points(); for lines up to 40 px the same stroke must arrive through draw() on an unbounded target and on targets whose bounding box lies just below / right of the thin line's box; f64 with 1e-9 slack in favour of the code",
        assumptions: &["'random long lines' of the quantifier are replaced by a deterministic boundary-value product", "distance clauses are not asserted for zero-length lines (no ideal line)"],
        parts: |_| vec![PartSpec::new("all", "verif")],
        run_part,
        required_classes: |_| vec!["zero-length", "vertical", "horizontal", "diagonal", "longer-than-40", "octant-0", "octant-1", "octant-2", "octant-3", "octant-4", "octant-5", "octant-6", "octant-7", "stroke-reaches-a-target-beside-the-thin-line"],
        crash_is_verdict: false,
    })
}
