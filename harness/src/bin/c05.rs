//! C05 points() enumerates exactly the points contains() accepts
use egverif::catalog::*;
use egverif::fw::*;
use egverif::with_area_primitive;
use embedded_graphics::geometry::Point;

fn domain(tier: Tier) -> Vec<Shape> {
    let t = tier.is_thorough();
    let mut v = vec![];
    for &(x, y) in &[(-3, 2), (5, -20)] {
        for w in 0..=6 {
            for h in 0..=6 {
                v.push(Shape::Rect { x, y, w, h });
            }
        }
        for d in 0..=tier.pick(96, 200) {
            v.push(Shape::Circle { x, y, d });
        }
        let e = tier.pick(40, 96);
        for w in 0..=e {
            for h in 0..=e {
                v.push(Shape::Ellipse { x, y, w, h });
            }
        }
        let (ms, mr) = tier.pick((12, 7), (18, 11));
        for w in 0..=ms {
            for h in 0..=ms {
                for rx in 0..=mr {
                    for ry in 0..=mr {
                        v.push(Shape::rrect_eq(x, y, w, h, (rx, ry)));
                    }
                }
            }
        }
        // unequal corners, including radii larger than the rectangle and neighbouring corners of equal height but different width (and vice versa)
        let alpha: &[(u32, u32)] = if t { &[(0, 0), (1, 3), (3, 1), (5, 5), (2, 9), (9, 2), (20, 20), (9, 9), (4, 3)] } else { &[(0, 0), (1, 3), (3, 1), (5, 5), (2, 9), (9, 9), (4, 3)] };
        let sizes: &[(u32, u32)] =
            if t { &[(7, 6), (3, 11), (8, 8), (10, 4), (1, 8), (5, 5), (12, 12), (2, 2), (6, 13)] } else { &[(7, 6), (3, 11), (8, 8), (1, 8), (10, 4), (16, 13), (20, 10)] };
        for &(w, h) in sizes {
            for &tl in alpha {
                for &tr in alpha {
                    for &br in alpha {
                        for &bl in alpha {
                            v.push(Shape::RRect { x, y, w, h, tl, tr, br, bl });
                        }
                    }
                }
            }
        }
        // sectors
        let (md, step) = tier.pick((24, 10), (48, 5));
        for d in 0..=md {
            let mut s = 0;
            while s < 360 {
                let mut sw = -390;
                while sw <= 390 {
                    v.push(Shape::Sector { x, y, d, start: s * 4, sweep: sw * 4 });
                    sw += step;
                }
                s += step;
            }
        }
        // start angles outside [0, 360)
        for d in [1u32, 5, 8, 13] {
            for s in [-90, -45, -1, 360, 405, 725, -725] {
                let mut sw = -390;
                while sw <= 390 {
                    v.push(Shape::Sector { x, y, d, start: s * 4, sweep: sw * 4 });
                    sw += 30;
                }
            }
        }
        if t {
            for d in 0..=12 {
                for s in (0..360).step_by(3) {
                    for sw in -365..=365 {
                        v.push(Shape::Sector { x, y, d, start: s * 4 + 1, sweep: sw * 4 });
                    }
                }
            }
        }
    }
    // triangles with non-zero area
    let tris = if t {
        let mut a = tri_grid(8, 1, -4, -3);
        a.extend(tri_grid(5, 3, -6, -5));
        a
    } else {
        let mut a = tri_grid(5, 1, -2, -2);
        a.extend(tri_grid(4, 3, -4, -5));
        a
    };
    for s in tris {
        if let Shape::Tri { a, b, c } = s {
            if tri_area2(a, b, c) != 0 {
                v.push(s);
            }
        }
    }
    v
}

fn check(shape: &Shape, obs: &mut Obs) {
    with_area_primitive!(
        shape,
        |p| {
            let bb = p.bounding_box();
            let got: Vec<(i32, i32)> = p.points().take(1_000_000).map(|q| (q.x, q.y)).collect();
            if got.len() <= 150 {
                iter_protocol("points()", 150, || p.points(), obs);
            }
            let m = 2;
            let mut exp: Vec<(i32, i32)> = vec![];
            let mut outside_true: Vec<(i32, i32)> = vec![];
            let x0 = bb.top_left.x - m;
            let y0 = bb.top_left.y - m;
            let x1 = bb.top_left.x + bb.size.width as i32 + m;
            let y1 = bb.top_left.y + bb.size.height as i32 + m;
            for y in y0..y1 {
                for x in x0..x1 {
                    let q = Point::new(x, y);
                    // through the trait entry point (for Rectangle the inherent method is a different function: both must agree)
                    let c = ContainsPoint::contains(&p, q);
                    if c != p.contains(q) {
                        obs.fail("trait-and-inherent-contains-agree", format!("ContainsPoint::contains({:?}) = {c}, .contains() = {}", (x, y), !c));
                    }
                    if c {
                        exp.push((x, y));
                        if !bb.contains(q) {
                            outside_true.push((x, y));
                        }
                    }
                }
            }
            // a few far probes
            for (dx, dy) in [(-100, 0), (100, 0), (0, -100), (0, 100), (-1000, -1000), (1000, 1000)] {
                let q = bb.center() + Point::new(dx, dy);
                if !bb.contains(q) && p.contains(q) {
                    outside_true.push((q.x, q.y));
                }
            }
            obs.outcome(&got);
            obs.nontrivial_if(!exp.is_empty() || !got.is_empty());
            obs.class(shape.kind());
            obs.class_if(exp.is_empty(), "empty");
            obs.class_if(bb.size.width > 0 && bb.size.height > 0 && (bb.size.width <= 2 || bb.size.height <= 2), "thin");
            if !outside_true.is_empty() {
                obs.fail("contains-false-outside-bounding-box", format!("bb={:?} contains() true at {:?}", bb, &outside_true[..outside_true.len().min(8)]));
            }
            if got.iter().any(|&(x, y)| !bb.contains(Point::new(x, y))) {
                obs.fail("points-inside-bounding-box", format!("bb={:?}", bb));
            }
            if got != exp {
                let (gs, es): (std::collections::HashSet<_>, std::collections::HashSet<_>) = (got.iter().collect(), exp.iter().collect());
                let only_p: Vec<_> = got.iter().filter(|q| !es.contains(q)).take(6).collect();
                let only_c: Vec<_> = exp.iter().filter(|q| !gs.contains(q)).take(6).collect();
                let mut sorted = got.clone();
                sorted.sort_by_key(|&(x, y)| (y, x));
                let clause = if only_p.is_empty() && only_c.is_empty() {
                    let mut d = sorted.clone();
                    d.dedup();
                    if d.len() != got.len() {
                        "points-each-once"
                    } else {
                        "points-row-major-order"
                    }
                } else {
                    "points-equals-contains"
                };
                obs.fail(clause, format!("|points|={} |contains|={} only_points={:?} only_contains={:?}", got.len(), exp.len(), only_p, only_c));
            }
        },
        unreachable!()
    )
}

fn run_part(run: &mut Run) {
    let tier = run.tier;
    if run.part == "sectors-fixed-point" {
        run.sweep_vec("sectors-fixed-point", "the sectors of the domain in the fixed_point build", || domain(tier).into_iter().filter(|s| matches!(s, Shape::Sector { .. })).collect(), check);
        return;
    }
    run.sweep_vec(
        "shapes",
        "Rectangle/Circle/Ellipse/RoundedRectangle(equal+unequal radii)/Sector/Triangle(non-zero area) on listed size, radius, angle and vertex grids at two positions",
        || domain(tier),
        check,
    );
    run.sweep_vec(
        "display-scale",
        "the area primitives of the display-scale catalogue (sizes 200..=320 px and one 1024 px shape at each of three positions far right/below, far left/above and across the origin)",
        || display_scale_catalogue().into_iter().filter(|s| matches!(s, Shape::Rect { .. } | Shape::Circle { .. } | Shape::Ellipse { .. } | Shape::RRect { .. } | Shape::Sector { .. } | Shape::Tri { .. })).filter(|s| !matches!(s, Shape::Tri { a, b, c } if (b.0 - a.0) as i64 * (c.1 - a.1) as i64 == (c.0 - a.0) as i64 * (b.1 - a.1) as i64)).collect(),
        check,
    );
}

fn main() {
    egverif::fw::main(Prop {
        id: "C05",
        level: "exploration",
        rule: "every shape of the listed finite domain is evaluated once (cases are distinct by construction, counted by hash); a case is non-trivial when points() or contains() yields at least one point; points() is compared as a sequence with the row-major filter of contains() over bounding_box() grown by 2, plus far probes",
        assumptions: &["contains() is probed on the bounding box grown by 2 pixels and at 6 far points only", "bounded to the listed sizes/angles/vertex grids"],
        parts: |_| vec![PartSpec::new("all", "verif"), PartSpec::new("sectors-fixed-point", "verif_fp")],
        run_part,
        required_classes: |_| vec!["rect", "circle", "ellipse", "rrect", "sector", "triangle", "empty", "thin"],
        crash_is_verdict: false,
    })
}
