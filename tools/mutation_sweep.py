#!/usr/bin/env python3
"""Systematic mutation sweep (detection experiment, not a registered check).

Works on private copies so that /repo and /verif stay untouched:
  /tmp/mut/repo   git worktree of /repo (HEAD)
  /tmp/mut/verif  copy of /verif whose harness depends on /tmp/mut/repo

For every candidate mutant (file, line, operator) of the anchored source files:
  1. apply it; build + run the repository suite (nextest); mutants that do not compile or that the
     suite kills are dropped (the interesting ones are those the suite cannot see);
  2. run the quick checks of every property whose anchors name the file;
  3. record which checks report a violation.
Results: /tmp/mut/results.jsonl (one JSON object per mutant that survived the suite).

usage: mutation_sweep.py [--stride N] [--offset K] [--max M] [--files glob ...]
"""
import fnmatch, json, os, re, subprocess, sys, time, glob, shutil

MUT = '/tmp/mut'
REPO = MUT + '/repo'
VERIF = MUT + '/verif'

OPS = [
    (r'<=', '<'), (r'>=', '>'), (r'(?<= )<(?= )', '<='), (r'(?<= )>(?= )', '>='),
    (r'==', '!='), (r'!=', '=='), (r'&&', '||'), (r'\|\|', '&&'),
    (r'\+ 1\b', '+ 0'), (r'- 1\b', '- 0'), (r'\+ 1\b', '+ 2'), (r'- 1\b', '+ 1'),
    (r'\.min\(', '.max('), (r'\.max\(', '.min('),
    (r'/ 2\b', '/ 2 + 1'), (r'\* 2\b', '* 2 + 1'),
    (r'saturating_sub', 'wrapping_sub'), (r'saturating_add', 'wrapping_add'),
    (r'(?<=[\w\)\]]) \+ (?=[\w\(])', ' - '), (r'(?<=[\w\)\]]) - (?=[\w\(])', ' + '),
    (r'\bx\b', 'y'), (r'\.width\b', '.height'), (r'\.height\b', '.width'),
    (r'\btrue\b', 'false'), (r'\bfalse\b', 'true'),
    (r'\?;', '.ok();'),
]


def sh(cmd, cwd=None, timeout=None):
    # own process group, killed as a whole on timeout (a mutant can make test processes loop forever)
    import signal
    p = subprocess.Popen(cmd, shell=True, cwd=cwd, stdout=subprocess.PIPE, stderr=subprocess.PIPE, text=True, start_new_session=True)
    try:
        out, err = p.communicate(timeout=timeout)
    except subprocess.TimeoutExpired:
        os.killpg(p.pid, signal.SIGKILL)
        p.communicate()
        # nextest starts every test in a process group of its own: a mutant that loops forever leaves them behind
        subprocess.run(['pkill', '-9', '-f', f'{REPO}/target/'], capture_output=True)
        raise
    return subprocess.CompletedProcess(cmd, p.returncode, out, err)


def setup():
    os.makedirs(MUT, exist_ok=True)
    if not os.path.isdir(REPO):
        r = sh(f'git -C /repo worktree add --detach {REPO} HEAD')
        assert r.returncode == 0, r.stderr
    sh('git checkout -q -- .', cwd=REPO)
    if os.path.isdir(VERIF):
        # refresh sources, keep build output
        for d in ['harness/src', 'tools']:
            shutil.rmtree(f'{VERIF}/{d}', ignore_errors=True)
    os.makedirs(VERIF, exist_ok=True)
    sh(f'git -C /verif archive HEAD | tar -x -C {VERIF}')
    ct = open(f'{VERIF}/harness/Cargo.toml').read().replace('"/repo/core"', f'"{REPO}/core"').replace('"/repo"', f'"{REPO}"')
    open(f'{VERIF}/harness/Cargo.toml', 'w').write(ct)
    # known findings etc. are read through EGV_VERIF_DIR = the copy (set by its own check script)


def anchors():
    m = {}
    for l in open('/verif/properties.jsonl'):
        p = json.loads(l)
        for f in p['anchors']['files']:
            m.setdefault(f, set()).add(p['id'])
    return m


def checks_for(path, amap):
    ids = set()
    for pat, props in amap.items():
        if fnmatch.fnmatch(path, pat):
            ids |= props
    return sorted(ids)


def candidates(files):
    out = []
    for f in files:
        src = open(f'{REPO}/{f}').read().split('\n')
        in_tests = False
        for i, line in enumerate(src):
            s = line.strip()
            if s.startswith('#[cfg(test)]'):
                in_tests = True
            if in_tests:
                continue
            if s.startswith('//') or s.startswith('#[') or s.startswith('use ') or not s:
                continue
            code = line.split('//')[0]
            for oi, (pat, rep) in enumerate(OPS):
                for mt in re.finditer(pat, code):
                    out.append((f, i, oi, mt.start(), mt.end()))
    return out


def main():
    args = sys.argv[1:]
    stride, offset, mx, globs = 1, 0, 10 ** 9, []
    while args:
        a = args.pop(0)
        if a == '--stride': stride = int(args.pop(0))
        elif a == '--offset': offset = int(args.pop(0))
        elif a == '--max': mx = int(args.pop(0))
        elif a == '--files':
            while args and not args[0].startswith('--'):
                globs.append(args.pop(0))
    setup()
    amap = anchors()
    files = set()
    for pat in amap:
        for g in glob.glob(f'{REPO}/{pat}'):
            rel = os.path.relpath(g, REPO)
            if 'generated' in rel:
                continue
            if globs and not any(fnmatch.fnmatch(rel, x) for x in globs):
                continue
            files.add(rel)
    cands = candidates(sorted(files))
    picked = cands[offset::stride][:mx]
    print(f'{len(files)} files, {len(cands)} candidate mutants, running {len(picked)}', flush=True)
    res = open(os.environ.get('MUT_RESULTS', f'{MUT}/results.jsonl'), 'a')
    env = 'CARGO_NET_OFFLINE=true '
    for n, (f, li, oi, a, b) in enumerate(picked):
        path = f'{REPO}/{f}'
        orig = open(path).read()
        lines = orig.split('\n')
        pat, rep = OPS[oi]
        new_line = lines[li][:a] + re.sub(pat, rep, lines[li][a:b], count=1) + lines[li][b:]
        if new_line == lines[li]:
            continue
        lines2 = list(lines)
        lines2[li] = new_line
        open(path, 'w').write('\n'.join(lines2))
        rec = {'file': f, 'line': li + 1, 'op': f'{pat} -> {rep}', 'before': lines[li].strip(), 'after': new_line.strip()}
        try:
            t0 = time.time()
            r = sh(env + 'cargo nextest run --workspace --no-fail-fast --offline 2>&1 | tail -5', cwd=REPO, timeout=900)
            out = r.stdout
            summ = [l for l in out.splitlines() if 'Summary' in l]
            if not summ or 'failed' in summ[-1] or 'passed' not in summ[-1]:
                status = 'killed-by-suite' if summ else 'no-compile'
                print(f'[{n}] {f}:{li+1} {pat}->{rep}: {status}', flush=True)
                continue
            ids = checks_for(f, amap)
            caught = {}
            for cid in ids:
                c = sh(f'./check {cid} quick 2>&1 | tail -40', cwd=VERIF, timeout=1800)
                rc_line = [l for l in c.stdout.splitlines() if l.startswith(f'{cid} quick:')]
                viol = sum(1 for l in c.stdout.splitlines() if l.startswith('VIOLATION'))
                mach = 'MACHINERY' in c.stdout
                caught[cid] = {'violations': viol, 'machinery': mach, 'summary': rc_line[-1][:160] if rc_line else c.stdout[-200:]}
            rec['checks'] = caught
            rec['caught_by'] = [k for k, v in caught.items() if v['violations'] > 0]
            rec['seconds'] = round(time.time() - t0, 1)
            res.write(json.dumps(rec) + '\n')
            res.flush()
            print(f'[{n}] {f}:{li+1} {pat}->{rep}: SURVIVES SUITE; caught by {rec["caught_by"]} of {ids}', flush=True)
        except subprocess.TimeoutExpired:
            rec['timeout'] = True
            res.write(json.dumps(rec) + '\n')
            res.flush()
            print(f'[{n}] {f}:{li+1}: TIMEOUT', flush=True)
        finally:
            open(path, 'w').write(orig)


if __name__ == '__main__':
    main()
