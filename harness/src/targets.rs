//! Reference draw targets of the harness.
//!
//! * `Rec<C, false>` — implements only `draw_iter`, **inherits** the trait defaults of
//!   `fill_contiguous`, `fill_solid` and `clear` (what MockDisplay and most simple drivers are).
//! * `Rec<C, true>`  — native `fill_contiguous` (row-major zip of area and stream, stops at the
//!   shorter), `fill_solid`, `clear`, each with its documented meaning; its `draw_iter` consumes the pixels by
//!   internal iteration (`for_each`).  With `drain` set `fill_contiguous` takes the whole colour stream by internal
//!   iteration (budgeted) and records how many colours it got; with `skip` set it clips to its box and jumps over
//!   the invisible colours with `nth`.
//! Both record an unbounded pixel map (points outside the reported bounding box are recorded, not
//! dropped), optionally a call log, and can fail the k-th call (fault enumeration).

use embedded_graphics::{
    draw_target::DrawTarget,
    geometry::{Dimensions, Point, Size},
    pixelcolor::PixelColor,
    primitives::{PointsIter, Rectangle},
    Pixel,
};
use std::collections::BTreeMap;
use std::hash::Hash;

pub type Map<C> = BTreeMap<(i32, i32), C>;

#[derive(Clone, Debug, PartialEq, Eq, Hash)]
pub enum Call<C> {
    DrawIter(Vec<((i32, i32), C)>),
    FillContiguous { area: (i32, i32, u32, u32), colors: Vec<C> },
    FillSolid { area: (i32, i32, u32, u32), color: C },
    Clear(C),
}
impl<C> Call<C> {
    pub fn kind(&self) -> &'static str {
        match self {
            Call::DrawIter(_) => "draw_iter",
            Call::FillContiguous { .. } => "fill_contiguous",
            Call::FillSolid { .. } => "fill_solid",
            Call::Clear(_) => "clear",
        }
    }
}

#[derive(Clone, Copy, Debug, PartialEq, Eq)]
pub struct Fault(pub usize);

pub fn rt(r: &Rectangle) -> (i32, i32, u32, u32) {
    (r.top_left.x, r.top_left.y, r.size.width, r.size.height)
}
pub fn rect(x: i32, y: i32, w: u32, h: u32) -> Rectangle {
    Rectangle::new(Point::new(x, y), Size::new(w, h))
}

pub const BIG_BOX: (i32, i32, u32, u32) = (-4096, -4096, 8192, 8192);
pub const DRAIN_BUDGET: usize = 1 << 22;

#[derive(Clone, Debug)]
pub struct Rec<C, const NATIVE: bool> {
    pub map: Map<C>,
    pub bbox: Rectangle,
    pub log_calls: bool,
    pub log: Vec<Call<C>>,
    pub ncalls: usize,
    /// fail the k-th call (1-based)
    pub fault_at: Option<usize>,
    /// calls attempted after a fault was returned
    pub calls_after_fault: usize,
    pub faulted: bool,
    /// kind and area of the call that was made to fail
    pub fault_call: Option<(&'static str, Option<(i32, i32, u32, u32)>)>,
    pub drain: bool,
    /// native fill_contiguous clips to the reported box and skips the invisible colours with `nth` (what a driver
    /// that streams only the visible window does); pixels outside the box are dropped by every call
    pub skip: bool,
    /// (area size, colours pulled) per fill_contiguous call when draining
    pub drained: Vec<(u64, u64)>,
}

pub type RecD<C> = Rec<C, false>;
pub type RecN<C> = Rec<C, true>;

impl<C: PixelColor, const N: bool> Rec<C, N> {
    pub fn new() -> Self {
        Self::with_box(rect(BIG_BOX.0, BIG_BOX.1, BIG_BOX.2, BIG_BOX.3))
    }
    pub fn with_box(bbox: Rectangle) -> Self {
        Rec {
            map: BTreeMap::new(),
            bbox,
            log_calls: false,
            log: vec![],
            ncalls: 0,
            fault_at: None,
            calls_after_fault: 0,
            faulted: false,
            fault_call: None,
            drain: false,
            skip: false,
            drained: vec![],
        }
    }
    pub fn logging(mut self) -> Self {
        self.log_calls = true;
        self
    }
    pub fn draining(mut self) -> Self {
        self.drain = true;
        self
    }
    pub fn skipping(mut self) -> Self {
        self.skip = true;
        self
    }
    pub fn failing_at(mut self, k: usize) -> Self {
        self.fault_at = Some(k);
        self
    }
    /// returns Err if this call is the one to fail
    fn enter(&mut self, kind: &'static str, area: Option<&Rectangle>) -> Result<(), Fault> {
        if self.faulted {
            self.calls_after_fault += 1;
        }
        self.ncalls += 1;
        if self.fault_at == Some(self.ncalls) {
            self.faulted = true;
            self.fault_call = Some((kind, area.map(rt)));
            return Err(Fault(self.ncalls));
        }
        Ok(())
    }
}
impl<C: PixelColor, const N: bool> Default for Rec<C, N> {
    fn default() -> Self {
        Self::new()
    }
}

impl<C: PixelColor, const N: bool> Dimensions for Rec<C, N> {
    fn bounding_box(&self) -> Rectangle {
        self.bbox
    }
}

impl<C: PixelColor> DrawTarget for Rec<C, false> {
    type Color = C;
    type Error = Fault;
    fn draw_iter<I: IntoIterator<Item = Pixel<C>>>(&mut self, px: I) -> Result<(), Fault> {
        // the failing call consumes nothing
        self.enter("draw_iter", None)?;
        if self.log_calls {
            let v: Vec<((i32, i32), C)> = px.into_iter().map(|Pixel(p, c)| ((p.x, p.y), c)).collect();
            for (p, c) in &v {
                self.map.insert(*p, *c);
            }
            self.log.push(Call::DrawIter(v));
        } else {
            for Pixel(p, c) in px {
                self.map.insert((p.x, p.y), c);
            }
        }
        Ok(())
    }
}

impl<C: PixelColor> DrawTarget for Rec<C, true> {
    type Color = C;
    type Error = Fault;
    /// the native flavour consumes the pixel iterator by internal iteration (`for_each`, i.e. `fold`), the
    /// draw_iter-only flavour with a `for` loop (`next`): a target is free to do either
    fn draw_iter<I: IntoIterator<Item = Pixel<C>>>(&mut self, px: I) -> Result<(), Fault> {
        self.enter("draw_iter", None)?;
        if self.log_calls {
            let mut v: Vec<((i32, i32), C)> = vec![];
            px.into_iter().for_each(|Pixel(p, c)| v.push(((p.x, p.y), c)));
            for (p, c) in &v {
                self.map.insert(*p, *c);
            }
            self.log.push(Call::DrawIter(v));
        } else {
            let map = &mut self.map;
            px.into_iter().for_each(|Pixel(p, c)| {
                map.insert((p.x, p.y), c);
            });
        }
        Ok(())
    }
    fn fill_contiguous<I: IntoIterator<Item = C>>(&mut self, area: &Rectangle, colors: I) -> Result<(), Fault> {
        self.enter("fill_contiguous", Some(area))?;
        let mut it = colors.into_iter();
        let mut got: Vec<C> = vec![];
        let mut n = 0u64;
        if self.skip {
            // visible part of the area; stream index of (x, y) is (y - area.y) * area.w + (x - area.x)
            let vis = area.intersection(&self.bbox);
            let aw = area.size.width as u64;
            let mut cursor = 0u64;
            'rows: for y in vis.rows() {
                let start = (y - area.top_left.y) as u64 * aw + (vis.top_left.x - area.top_left.x) as u64;
                for (i, x) in vis.columns().enumerate() {
                    // one `nth` jumps over everything invisible since the last visible pixel
                    let c = if i == 0 { it.nth((start - cursor) as usize) } else { it.next() };
                    match c {
                        Some(c) => {
                            self.map.insert((x, y), c);
                            if self.log_calls {
                                got.push(c);
                            }
                        }
                        None => break 'rows,
                    }
                }
                cursor = start + vis.size.width as u64;
            }
            if self.log_calls {
                self.log.push(Call::FillContiguous { area: rt(area), colors: got });
            }
            return Ok(());
        }
        if self.drain {
            // a target that takes the whole stream by internal iteration (`for_each`, i.e. the stream's `fold`): colour i
            // belongs to the i-th row-major point of the area; a stream that does not end within the budget cannot be
            // consumed this way (panic in the harness frame, reported for the case)
            let area_n = area.size.width as u64 * area.size.height as u64;
            let mut pts = area.points();
            let map = &mut self.map;
            let log = self.log_calls;
            it.for_each(|c| {
                if let Some(p) = pts.next() {
                    map.insert((p.x, p.y), c);
                    if log {
                        got.push(c);
                    }
                }
                n += 1;
                if n > DRAIN_BUDGET as u64 {
                    panic!("harness: colour stream longer than {} colours handed to a draining target (area of {} pixels)", DRAIN_BUDGET, area_n);
                }
            });
            self.drained.push((area_n, n));
            if self.log_calls {
                self.log.push(Call::FillContiguous { area: rt(area), colors: got });
            }
            return Ok(());
        }
        for p in area.points() {
            match it.next() {
                Some(c) => {
                    self.map.insert((p.x, p.y), c);
                    if self.log_calls {
                        got.push(c);
                    }
                }
                None => break,
            }
        }
        if self.log_calls {
            self.log.push(Call::FillContiguous { area: rt(area), colors: got });
        }
        Ok(())
    }
    fn fill_solid(&mut self, area: &Rectangle, color: C) -> Result<(), Fault> {
        self.enter("fill_solid", Some(area))?;
        for p in area.points() {
            self.map.insert((p.x, p.y), color);
        }
        if self.log_calls {
            self.log.push(Call::FillSolid { area: rt(area), color });
        }
        Ok(())
    }
    fn clear(&mut self, color: C) -> Result<(), Fault> {
        self.enter("clear", None)?;
        let b = self.bbox;
        for p in b.points() {
            self.map.insert((p.x, p.y), color);
        }
        if self.log_calls {
            self.log.push(Call::Clear(color));
        }
        Ok(())
    }
}

/// Allocation-free counting target (C08).  `NATIVE` as above.
pub struct NullTarget<C, const NATIVE: bool> {
    pub pixels: u64,
    pub calls: u64,
    pub budget: u64,
    pub exceeded: bool,
    pub bbox: Rectangle,
    _c: core::marker::PhantomData<C>,
}
impl<C, const N: bool> NullTarget<C, N> {
    pub fn new(bbox: Rectangle, budget: u64) -> Self {
        NullTarget { pixels: 0, calls: 0, budget, exceeded: false, bbox, _c: core::marker::PhantomData }
    }
}
impl<C, const N: bool> Dimensions for NullTarget<C, N> {
    fn bounding_box(&self) -> Rectangle {
        self.bbox
    }
}
#[derive(Debug, Clone, Copy, PartialEq, Eq)]
pub struct Budget;
impl<C: PixelColor> DrawTarget for NullTarget<C, false> {
    type Color = C;
    type Error = Budget;
    fn draw_iter<I: IntoIterator<Item = Pixel<C>>>(&mut self, px: I) -> Result<(), Budget> {
        self.calls += 1;
        for _ in px {
            self.pixels += 1;
            if self.pixels > self.budget {
                self.exceeded = true;
                return Err(Budget);
            }
        }
        Ok(())
    }
}
impl<C: PixelColor> DrawTarget for NullTarget<C, true> {
    type Color = C;
    type Error = Budget;
    fn draw_iter<I: IntoIterator<Item = Pixel<C>>>(&mut self, px: I) -> Result<(), Budget> {
        self.calls += 1;
        for _ in px {
            self.pixels += 1;
            if self.pixels > self.budget {
                self.exceeded = true;
                return Err(Budget);
            }
        }
        Ok(())
    }
    fn fill_contiguous<I: IntoIterator<Item = C>>(&mut self, area: &Rectangle, colors: I) -> Result<(), Budget> {
        self.calls += 1;
        let n = area.size.width as u64 * area.size.height as u64;
        let mut k = 0u64;
        for _ in colors {
            k += 1;
            self.pixels += 1;
            if self.pixels > self.budget {
                self.exceeded = true;
                return Err(Budget);
            }
            if k >= n {
                break;
            }
        }
        Ok(())
    }
    fn fill_solid(&mut self, area: &Rectangle, _c: C) -> Result<(), Budget> {
        self.calls += 1;
        self.pixels += area.size.width as u64 * area.size.height as u64;
        Ok(())
    }
    fn clear(&mut self, _c: C) -> Result<(), Budget> {
        self.calls += 1;
        Ok(())
    }
}

pub fn map_hash<C: Hash>(m: &Map<C>) -> u64 {
    use std::hash::Hasher;
    let mut h = std::collections::hash_map::DefaultHasher::new();
    m.hash(&mut h);
    h.finish()
}

pub fn shift_map<C: Copy>(m: &Map<C>, dx: i32, dy: i32) -> Map<C> {
    m.iter().map(|(&(x, y), &c)| ((x + dx, y + dy), c)).collect()
}

/// short description of the difference of two maps
pub fn map_diff<C: core::fmt::Debug + PartialEq>(a: &Map<C>, b: &Map<C>) -> String {
    let mut only_a = vec![];
    let mut only_b = vec![];
    let mut differ = vec![];
    for (k, v) in a {
        match b.get(k) {
            None => only_a.push(*k),
            Some(w) if w != v => differ.push(*k),
            _ => {}
        }
    }
    for k in b.keys() {
        if !a.contains_key(k) {
            only_b.push(*k);
        }
    }
    let f = |v: &Vec<(i32, i32)>| format!("{}{:?}", v.len(), &v[..v.len().min(6)]);
    format!("|a|={} |b|={} only_a={} only_b={} differ={}", a.len(), b.len(), f(&only_a), f(&only_b), f(&differ))
}
