#!/bin/bash
# tools/try_patch.sh <patch.diff> <tier> <ID> [<ID>...]   apply a change to /repo, run the given checks, undo it.
# Prints one line per check: "<ID> exit=<rc> <n> VIOLATION lines".  /repo must be clean before and is clean after.
set -u
PATCH="$1"; TIER="$2"; shift 2
cd "$(dirname "$0")/.."
if [ -n "$(git -C /repo status --porcelain)" ]; then echo "/repo is not clean" >&2; exit 2; fi
git -C /repo apply "$PATCH" || { echo "patch does not apply" >&2; exit 2; }
for id in "$@"; do
  out=$(./check "$id" "$TIER" 2>&1); rc=$?
  n=$(echo "$out" | grep -c "^VIOLATION property=$id")
  first=$(echo "$out" | grep -A1 "violation clusters" | tail -1 | cut -c1-260)
  echo "$id exit=$rc violations=$n  $first"
done
git -C /repo checkout -- .
if [ -n "$(git -C /repo status --porcelain)" ]; then echo "/repo not clean after revert" >&2; exit 2; fi
