//! C03 Clipped/cropped/translated/converted targets and trait defaults are exact
//! Explicit-state exploration: state = pixel map of the innermost parent; an action = (adapter
//! stack, drawing operation) executed through the real adapters; the successor is compared with a
//! set-theoretic reference model on every transition.
use egverif::fw::*;
use egverif::targets::*;
use embedded_graphics::draw_target::{DrawTarget, DrawTargetExt};
use embedded_graphics::geometry::{Dimensions, Point};
use embedded_graphics::pixelcolor::{Gray8, GrayColor, PixelColor, Rgb888};
use embedded_graphics::primitives::Rectangle;
use embedded_graphics::transform::Transform;
use embedded_graphics::Pixel;
use serde::{Deserialize, Serialize};
use std::collections::BTreeSet;

type R4 = (i32, i32, u32, u32);
type P2 = (i32, i32);

#[derive(Clone, Debug, PartialEq, Eq, Hash, Serialize, Deserialize)]
enum Ad {
    Clip(R4),
    Crop(R4),
    Tr(P2),
    /// color_converted::<Rgb888>() over a Gray8 target
    Conv,
}

#[derive(Clone, Debug, PartialEq, Eq, Hash, Serialize, Deserialize)]
enum Op {
    Iter(Vec<(P2, u8)>),
    /// len < 0: endless stream
    Contig { area: R4, len: i64 },
    Solid { area: R4, v: u8 },
    Clear(u8),
}

#[derive(Clone, Debug, PartialEq, Eq, Hash, Serialize, Deserialize)]
struct Act {
    stack: Vec<Ad>,
    op: Op,
    /// a second operation issued through the *same* adapter instances (None: one operation per instance)
    #[serde(default, skip_serializing_if = "Option::is_none")]
    then: Option<Op>,
}

#[derive(Clone, Debug, PartialEq, Eq, Hash, Serialize, Deserialize)]
struct Init {
    parent_box: R4,
    native: bool,
    prefilled: bool,
}

trait FromV: PixelColor {
    fn from_v(v: u8) -> Self;
}
impl FromV for Gray8 {
    fn from_v(v: u8) -> Self {
        Gray8::new(v)
    }
}
impl FromV for Rgb888 {
    fn from_v(v: u8) -> Self {
        Rgb888::new(v, v.wrapping_mul(7).wrapping_add(3), v ^ 0x5A)
    }
}
fn stream_v(i: u64) -> u8 {
    10 + (i % 200) as u8
}

fn r(a: &R4) -> Rectangle {
    rect(a.0, a.1, a.2, a.3)
}

fn apply<T: DrawTarget>(t: &mut T, ops: &[Op])
where
    T::Color: FromV,
    T::Error: core::fmt::Debug,
{
    for op in ops {
        apply_one(t, op);
    }
}

fn apply_one<T: DrawTarget>(t: &mut T, op: &Op)
where
    T::Color: FromV,
    T::Error: core::fmt::Debug,
{
    match op {
        Op::Iter(v) => t.draw_iter(v.iter().map(|(p, c)| Pixel(Point::new(p.0, p.1), T::Color::from_v(*c)))).unwrap(),
        Op::Contig { area, len } => {
            if *len < 0 {
                t.fill_contiguous(&r(area), (0u64..).map(|i| T::Color::from_v(stream_v(i)))).unwrap()
            } else {
                t.fill_contiguous(&r(area), (0u64..*len as u64).map(|i| T::Color::from_v(stream_v(i)))).unwrap()
            }
        }
        Op::Solid { area, v } => t.fill_solid(&r(area), T::Color::from_v(*v)).unwrap(),
        Op::Clear(v) => t.clear(T::Color::from_v(*v)).unwrap(),
    }
}

// depth-indexed functions (an adapter stack is a type; recursion over a generic would not terminate)
macro_rules! level_gray {
    ($name:ident, $next_a:ident, $next_b:ident) => {
        fn $name<T: DrawTarget<Color = Gray8>>(t: &mut T, stack: &[Ad], op: &[Op], boxes: &mut Vec<Rectangle>)
        where
            T::Error: core::fmt::Debug,
        {
            match stack.first() {
                None => apply(t, op),
                Some(Ad::Clip(a)) => {
                    let mut x = t.clipped(&r(a));
                    boxes.push(x.bounding_box());
                    $next_a(&mut x, &stack[1..], op, boxes)
                }
                Some(Ad::Crop(a)) => {
                    let mut x = t.cropped(&r(a));
                    boxes.push(x.bounding_box());
                    $next_a(&mut x, &stack[1..], op, boxes)
                }
                Some(Ad::Tr(d)) => {
                    let mut x = t.translated(Point::new(d.0, d.1));
                    boxes.push(x.bounding_box());
                    $next_a(&mut x, &stack[1..], op, boxes)
                }
                Some(Ad::Conv) => {
                    let mut x = t.color_converted::<Rgb888>();
                    boxes.push(x.bounding_box());
                    $next_b(&mut x, &stack[1..], op, boxes)
                }
            }
        }
    };
}
macro_rules! level_rgb {
    ($name:ident, $next_b:ident) => {
        fn $name<T: DrawTarget<Color = Rgb888>>(t: &mut T, stack: &[Ad], op: &[Op], boxes: &mut Vec<Rectangle>)
        where
            T::Error: core::fmt::Debug,
        {
            match stack.first() {
                None => apply(t, op),
                Some(Ad::Clip(a)) => {
                    let mut x = t.clipped(&r(a));
                    boxes.push(x.bounding_box());
                    $next_b(&mut x, &stack[1..], op, boxes)
                }
                Some(Ad::Crop(a)) => {
                    let mut x = t.cropped(&r(a));
                    boxes.push(x.bounding_box());
                    $next_b(&mut x, &stack[1..], op, boxes)
                }
                Some(Ad::Tr(d)) => {
                    let mut x = t.translated(Point::new(d.0, d.1));
                    boxes.push(x.bounding_box());
                    $next_b(&mut x, &stack[1..], op, boxes)
                }
                Some(Ad::Conv) => panic!("harness: at most one conversion per stack"),
            }
        }
    };
}
fn ga0<T: DrawTarget<Color = Gray8>>(t: &mut T, stack: &[Ad], op: &[Op], _b: &mut Vec<Rectangle>)
where
    T::Error: core::fmt::Debug,
{
    assert!(stack.is_empty(), "harness: stack deeper than 3");
    apply(t, op)
}
fn gb0<T: DrawTarget<Color = Rgb888>>(t: &mut T, stack: &[Ad], op: &[Op], _b: &mut Vec<Rectangle>)
where
    T::Error: core::fmt::Debug,
{
    assert!(stack.is_empty(), "harness: stack deeper than 3");
    apply(t, op)
}
level_rgb!(gb1, gb0);
level_rgb!(gb2, gb1);
level_gray!(ga1, ga0, gb0);
level_gray!(ga2, ga1, gb1);
level_gray!(ga3, ga2, gb2);

/// points of a rectangle in row-major order (own loops, independent of Rectangle::points)
fn row_major(a: &R4) -> Vec<P2> {
    let mut v = vec![];
    for y in 0..a.3 as i32 {
        for x in 0..a.2 as i32 {
            v.push((a.0 + x, a.1 + y));
        }
    }
    v
}

struct Composed {
    /// own coordinates + off = parent coordinates
    off: P2,
    /// composed clip set in parent coordinates (None = unclipped)
    clip: Option<BTreeSet<P2>>,
    /// reported bounding box of every level
    boxes: Vec<Rectangle>,
    /// bounding box of the top level (own coordinates)
    top: Rectangle,
    conv: bool,
}

/// set-theoretic composition of the stack: vector addition of offsets, intersection of clip sets
/// in parent coordinates, composition of colour maps.  Rectangle::intersection / translate are
/// trusted primitives here (C16 decides them).
fn compose(parent_box: &R4, stack: &[Ad]) -> Composed {
    let mut off = (0, 0);
    let mut clip: Option<BTreeSet<P2>> = None;
    let mut cur = r(parent_box);
    let mut boxes = vec![];
    let mut conv = false;
    for a in stack {
        match a {
            Ad::Clip(x) => {
                let i = r(x).intersection(&cur);
                let s: BTreeSet<P2> = row_major(&rt(&i)).into_iter().map(|p| (p.0 + off.0, p.1 + off.1)).collect();
                clip = Some(match clip {
                    None => s,
                    Some(c) => c.intersection(&s).copied().collect(),
                });
                cur = i;
            }
            Ad::Crop(x) => {
                let i = r(x).intersection(&cur);
                off = (off.0 + i.top_left.x, off.1 + i.top_left.y);
                cur = Rectangle::new(Point::zero(), i.size);
            }
            Ad::Tr(d) => {
                off = (off.0 + d.0, off.1 + d.1);
                cur = cur.translate(Point::new(-d.0, -d.1));
            }
            Ad::Conv => conv = true,
        }
        boxes.push(cur);
    }
    Composed { off, clip, boxes, top: cur, conv }
}

/// the ordered writes an operation means when applied at the top of the stack, in top coordinates
fn writes(op: &Op, top_box: &Rectangle) -> Vec<(P2, u8)> {
    match op {
        Op::Iter(v) => v.clone(),
        Op::Contig { area, len } => {
            let pts = row_major(area);
            let n = if *len < 0 { pts.len() } else { (*len as usize).min(pts.len()) };
            pts.into_iter().take(n).enumerate().map(|(i, p)| (p, stream_v(i as u64))).collect()
        }
        Op::Solid { area, v } => row_major(area).into_iter().map(|p| (p, *v)).collect(),
        // clear(c) == fill_solid(bounding_box(), c) at every level
        Op::Clear(v) => row_major(&rt(top_box)).into_iter().map(|p| (p, *v)).collect(),
    }
}

fn conv_v(v: u8, conv: bool) -> u8 {
    if conv {
        let g: Gray8 = Rgb888::from_v(v).into();
        g.luma()
    } else {
        v
    }
}

struct M;

#[derive(Clone)]
struct St {
    map: Map<Gray8>,
}

fn prefill() -> Map<Gray8> {
    let mut m = Map::new();
    for y in -4i32..9 {
        for x in -5i32..10 {
            m.insert((x, y), Gray8::new(200 + ((x + y * 3).rem_euclid(50)) as u8));
        }
    }
    m
}

macro_rules! run_real {
    ($name:ident, $n:literal) => {
        fn $name(init: &Init, s: &St, a: &Act) -> (Map<Gray8>, Vec<Call<Gray8>>, Vec<Rectangle>) {
            let mut t = Rec::<Gray8, $n>::with_box(r(&init.parent_box)).logging();
            t.map = s.map.clone();
            let mut boxes = vec![];
            let ops: Vec<Op> = std::iter::once(a.op.clone()).chain(a.then.clone()).collect();
            ga3(&mut t, &a.stack, &ops, &mut boxes);
            (t.map, t.log, boxes)
        }
    };
}
run_real!(run_real_native, true);
run_real!(run_real_default, false);

impl Model for M {
    type State = St;
    type Init = Init;
    type Action = Act;

    fn init(&self, i: &Init) -> St {
        St { map: if i.prefilled { prefill() } else { Map::new() } }
    }
    fn actions(&self, _i: &Init, _s: &St, _depth: usize) -> Vec<Act> {
        unreachable!("actions are supplied by the wrapper models")
    }
    fn step(&self, init: &Init, s: &St, a: &Act, obs: &mut Obs) -> St {
        let (real, log, boxes) = if init.native { run_real_native(init, s, a) } else { run_real_default(init, s, a) };
        // the parent may consume the iterators the adapters hand it in any way (finite streams only; from the blank
        // native initial states, whose pixel map plays no role here)
        let finite = |o: &Op| matches!(o, Op::Iter(_)) || matches!(o, Op::Contig { len, .. } if *len >= 0);
        if init.native && !init.prefilled && finite(&a.op) && a.then.as_ref().map_or(true, finite) {
            use egverif::proto::{compare_runs, ProtoTarget, MODES};
            let ops: Vec<Op> = std::iter::once(a.op.clone()).chain(a.then.clone()).collect();
            let run = |mode: u8| {
                let mut t = ProtoTarget::<Gray8>::with_box(mode, r(&init.parent_box));
                let mut boxes = vec![];
                ga3(&mut t, &a.stack, &ops, &mut boxes);
                t.calls
            };
            let reference = run(0);
            obs.class("parent-consumes-in-every-way");
            for (way, mode) in MODES.iter().skip(1) {
                if !compare_runs("operation through the adapter stack", &reference, &run(*mode), way, *mode, obs) {
                    break;
                }
            }
        }
        let c = compose(&init.parent_box, &a.stack);
        // expected state
        let mut exp = s.map.clone();
        let mut inside = 0u32;
        let mut outside = 0u32;
        let mut all_writes = writes(&a.op, &c.top);
        if let Some(t) = &a.then {
            all_writes.extend(writes(t, &c.top));
            obs.class("two-operations-through-one-adapter-instance");
        }
        for (p, v) in all_writes {
            let q = (p.0 + c.off.0, p.1 + c.off.1);
            if c.clip.as_ref().map_or(true, |cl| cl.contains(&q)) {
                exp.insert(q, Gray8::new(conv_v(v, c.conv)));
                inside += 1;
            } else {
                outside += 1;
            }
        }
        obs.nontrivial_if(inside > 0);
        obs.class_if(c.clip.is_some() && outside > 0 && inside > 0, "clip-cuts-operation");
        obs.class_if(c.clip.is_some() && inside == 0 && outside > 0, "clip-removes-everything");
        obs.class_if(c.conv, "colour-converted");
        obs.class_if(a.stack.len() >= 2, "nested");
        obs.class_if(a.stack.is_empty(), "no-adapter");
        obs.class_if(matches!(a.op, Op::Contig { len, area } if len >= 0 && (len as u64) < area.2 as u64 * area.3 as u64), "short-stream");
        obs.class_if(matches!(a.op, Op::Contig { len, .. } if len < 0), "endless-stream");
        obs.class_if(a.stack.iter().any(|x| matches!(x, Ad::Crop(_))), "cropped");
        obs.class_if(a.stack.iter().any(|x| matches!(x, Ad::Tr(_))), "translated");
        obs.class_if(matches!(a.op, Op::Clear(_)), "clear");
        obs.class_if(!init.native && !matches!(a.op, Op::Iter(_)), "trait-default-fill");
        obs.class_if(init.parent_box.2 == 0 || init.parent_box.3 == 0, "empty-parent-box");
        if real != exp {
            obs.fail("parent-state==model", format!("real vs model: {}", map_diff(&real, &exp)));
        }
        // confinement: with a clip in the stack no pixel outside the composed clip set reaches the parent
        if let Some(cl) = &c.clip {
            let pb = init.parent_box;
            for call in &log {
                let pts: Vec<P2> = match call {
                    Call::DrawIter(v) => v.iter().map(|(p, _)| *p).collect(),
                    Call::FillContiguous { area, colors } => row_major(area).into_iter().take(colors.len()).collect(),
                    Call::FillSolid { area, .. } => row_major(area),
                    Call::Clear(_) => row_major(&pb),
                };
                if let Some(p) = pts.iter().find(|p| !cl.contains(p)) {
                    obs.fail("clip-confinement", format!("{} call lets {:?} outside the clip area reach the parent", call.kind(), p));
                    break;
                }
            }
        }
        // reported boxes
        if boxes.len() != c.boxes.len() {
            obs.fail("bounding-box-of-level", format!("{} boxes reported, {} modelled", boxes.len(), c.boxes.len()));
        }
        for (lvl, (b, m)) in boxes.iter().zip(c.boxes.iter()).enumerate() {
            let ok = if m.is_zero_sized() { b.is_zero_sized() } else { b == m };
            if !ok {
                obs.fail("bounding-box-of-level", format!("level {lvl}: reported {:?} model {:?}", rt(b), rt(m)));
            }
        }
        St { map: real }
    }
    fn key(&self, s: &St) -> u64 {
        map_hash(&s.map)
    }
}

/// wrapper giving the alphabet
struct WithAlphabet {
    acts: Vec<Act>,
}
impl Model for WithAlphabet {
    type State = St;
    type Init = Init;
    type Action = Act;
    fn init(&self, i: &Init) -> St {
        M.init(i)
    }
    fn actions(&self, _i: &Init, _s: &St, _d: usize) -> Vec<Act> {
        self.acts.clone()
    }
    fn step(&self, i: &Init, s: &St, a: &Act, obs: &mut Obs) -> St {
        M.step(i, s, a, obs)
    }
    fn key(&self, s: &St) -> u64 {
        M.key(s)
    }
}

fn adapters(reduced: bool) -> Vec<Ad> {
    let rs: Vec<R4> = if reduced {
        vec![(1, 1, 3, 2), (-3, -1, 5, 4), (3, 0, 9, 9), (20, 20, 2, 2)]
    } else {
        vec![
            (1, 1, 3, 2),    // inside
            (-3, -1, 5, 4),  // cuts left/top
            (3, 2, 6, 6),    // cuts right/bottom
            (1, -5, 2, 20),  // cuts left and right only... (full height)
            (-9, 1, 30, 2),  // full width, non-zero first row
            (-9, -9, 12, 30), // cuts the right side only
            (2, -9, 30, 30), // cuts the left side only
            (-5, -5, 20, 20), // containing
            (20, 20, 2, 2),  // disjoint
            (2, 2, 0, 2),    // zero-sized inside
            (-9, 0, 0, 0),   // zero-sized outside
            (1, 1, 30, 0),   // zero height but wider than any parent or fill area, top-left inside
            (2, 1, 0, 30),   // zero width but taller than any parent or fill area, top-left inside
        ]
    };
    let mut v = vec![];
    for x in &rs {
        v.push(Ad::Clip(*x));
        v.push(Ad::Crop(*x));
    }
    v.push(Ad::Tr((1, -2)));
    if !reduced {
        v.push(Ad::Tr((-3, 2)));
    }
    v.push(Ad::Conv);
    v
}

fn stacks(max_depth: usize, reduced: bool) -> Vec<Vec<Ad>> {
    let ads = adapters(reduced);
    let mut out: Vec<Vec<Ad>> = vec![vec![]];
    let mut level: Vec<Vec<Ad>> = vec![vec![]];
    for _ in 0..max_depth {
        let mut next = vec![];
        for s in &level {
            for a in &ads {
                if *a == Ad::Conv && s.contains(&Ad::Conv) {
                    continue;
                }
                let mut t = s.clone();
                t.push(a.clone());
                next.push(t);
            }
        }
        out.extend(next.iter().cloned());
        level = next;
    }
    out
}

fn ops(reduced: bool) -> Vec<Op> {
    let mut v = vec![
        Op::Clear(7),
        Op::Iter(vec![((0, 0), 1), ((5, 4), 2), ((-1, 0), 3), ((0, 0), 4), ((2, 2), 5), ((6, 0), 6), ((-2, 1), 8)]),
        Op::Iter(vec![]),
        // colours that return to an earlier one within the call: 9 9 250 0 9 250 9
        Op::Iter(vec![((1, 1), 9), ((3, 2), 9), ((2, 1), 250), ((1, 2), 0), ((0, 1), 9), ((2, 2), 250), ((3, 1), 9)]),
    ];
    let areas: Vec<R4> = if reduced { vec![(0, 0, 3, 2), (-2, -1, 5, 4)] } else { vec![(0, 0, 3, 2), (-2, -1, 5, 4), (2, 1, 4, 3), (1, 1, 0, 2), (30, 30, 2, 2)] };
    for a in areas {
        v.push(Op::Solid { area: a, v: 99 });
        let n = (a.2 * a.3) as i64;
        let lens: Vec<i64> = if reduced { vec![a.2 as i64 + 1, n, -1] } else { vec![0, 1, a.2 as i64, (n - 1).max(0), n, n + 3, -1] };
        for l in lens {
            v.push(Op::Contig { area: a, len: l });
        }
    }
    v
}

fn inits() -> Vec<Init> {
    let mut v = vec![];
    for pb in [(0, 0, 6, 5), (-2, 1, 5, 4), (2, 2, 0, 0), (1, 1, 0, 3)] {
        for native in [false, true] {
            for prefilled in [false, true] {
                v.push(Init { parent_box: pb, native, prefilled });
            }
        }
    }
    v
}

fn alphabet(max_depth: usize, reduced: bool) -> Vec<Act> {
    let mut v = vec![];
    for s in stacks(max_depth, reduced) {
        for o in ops(reduced) {
            v.push(Act { stack: s.clone(), op: o, then: None });
        }
    }
    v
}

fn run_part(run: &mut Run) {
    let tier = run.tier;
    match run.part.as_str() {
        "single" => {
            // every single action of the full alphabet from every initial state (incl. pre-filled, i.e. non-initial content)
            let depth = tier.pick(2, 3);
            let m = WithAlphabet { acts: alphabet(depth, false) };
            run.note(format!("full alphabet: {} actions ({} stacks of depth <= {depth} x {} operations)", m.acts.len(), stacks(depth, false).len(), ops(false).len()));
            run.explore("single-actions", "every action (adapter stack of depth<=2 quick/3 thorough over 29 adapters x 44 operations) from 16 initial states (4 parent boxes x default/native fill x blank/pre-filled)", &m, inits(), 1);
        }
        "nested3" => {
            // depth-3 nestings over the reduced adapter alphabet x the full operation list
            let mut acts = vec![];
            for s in stacks(3, true).into_iter().filter(|s| s.len() == 3) {
                for o in ops(false) {
                    acts.push(Act { stack: s.clone(), op: o, then: None });
                }
            }
            let m = WithAlphabet { acts };
            run.note(format!("depth-3 stacks over the reduced adapter alphabet: {} actions", m.acts.len()));
            run.explore("single-actions-depth-3", "every (depth-3 adapter stack over the reduced alphabet of 10 adapters, operation of 44) from the 16 initial states", &m, inits(), 1);
        }
        "histories" => {
            let m = WithAlphabet { acts: alphabet(tier.pick(1, 2), true) };
            run.note(format!("reduced alphabet: {} actions", m.acts.len()));
            let stats = run.explore("histories", "all action sequences of length 2 (thorough 3 over depth<=1 stacks, 2 over depth<=2) over the reduced alphabet from the 16 initial states, deduplicated on the parent's pixel map", &m, inits(), 2);
            // second engine over the same transition function: must see the same state space
            run.cross_check_stateright("histories", std::sync::Arc::new(m), inits(), 2, &stats);
            // two operations through the same adapter instances (an adapter must not carry state from one call to the next)
            let mut acts = vec![];
            for s in stacks(tier.pick(1, 2), true) {
                for o1 in ops(true) {
                    for o2 in ops(true) {
                        acts.push(Act { stack: s.clone(), op: o1.clone(), then: Some(o2) });
                    }
                }
            }
            let m2 = WithAlphabet { acts };
            run.explore("two-operations-per-instance", "every pair of operations of the reduced list issued through one instance of every adapter stack of depth <= 1 (thorough 2) over the reduced alphabet, from the 16 initial states", &m2, inits(), 1);
            if tier.is_thorough() {
                let m = WithAlphabet { acts: alphabet(1, true) };
                run.explore("histories-3", "all action sequences of length 3 over the reduced alphabet with stacks of depth <= 1", &m, inits(), 3);
            }
        }
        p => panic!("unknown part {p}"),
    }
}

fn main() {
    egverif::fw::main(Prop {
        id: "C03",
        level: "model_checking",
        rule: "explicit-state BFS: a state is the pixel map of the innermost parent; a transition applies one (adapter stack, operation) through the real adapters and trait defaults and is compared with the set-theoretic reference model (offset addition, clip-set intersection, colour-map composition, row-major zip with the stream); distinct_nontrivial counts distinct (initial state, canonical parent map) states",
        assumptions: &["Rectangle::intersection/translate are used by the model as trusted primitives (C16 decides them)", "bounded to the listed adapters, operations and history depth"],
        parts: |_| vec![PartSpec::new("single", "verif"), PartSpec::new("nested3", "verif"), PartSpec::new("histories", "verif")],
        run_part,
        required_classes: |_| vec!["parent-consumes-in-every-way", "clip-cuts-operation", "clip-removes-everything", "colour-converted", "nested", "no-adapter", "short-stream", "endless-stream", "cropped", "translated", "clear", "trait-default-fill", "empty-parent-box", "two-operations-through-one-adapter-instance"],
        crash_is_verdict: false,
    })
}
