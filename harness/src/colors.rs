//! Uniform view of the 14 built-in colour types for the complete enumerations of C12/C13.
use embedded_graphics::pixelcolor::raw::{RawData, ToBytes};
use embedded_graphics::pixelcolor::*;

#[derive(Clone, Copy, Debug, PartialEq, Eq)]
pub enum Kind {
    Binary,
    Gray { bits: u32 },
    /// channel widths from an independent table (not from the library's constants); bgr = blue in the most significant bits
    Rgb { r: u32, g: u32, b: u32, bgr: bool },
}

pub trait Col: PixelColor + core::fmt::Debug + Send + Sync + 'static {
    const NAME: &'static str;
    const KIND: Kind;
    /// construct through the public constructor (rgb: new(r, g, b); gray: new(luma = a[0]); binary: a[0] != 0)
    fn make(a: [u8; 3]) -> Self;
    /// read through the public accessors (rgb: r(), g(), b(); gray: luma() in [0]; binary: is_on() in [0])
    fn chans(self) -> [u8; 3];
    fn raw_u32(self) -> u32;
    fn from_raw_u32(v: u32) -> Self;
    fn storage_u32(self) -> u32;
    fn be_bytes(self) -> Vec<u8>;
    fn le_bytes(self) -> Vec<u8>;
    fn ne_bytes(self) -> Vec<u8>;
    fn raw_bits() -> u32;
    /// bits of the raw storage type (8, 16, 32)
    fn storage_bits() -> u32;
    fn black() -> Self;
    fn white() -> Self;
}

impl Kind {
    /// maxima of the (up to three) channels
    pub fn maxima(&self) -> [u32; 3] {
        match *self {
            Kind::Binary => [1, 0, 0],
            Kind::Gray { bits } => [(1 << bits) - 1, 0, 0],
            Kind::Rgb { r, g, b, .. } => [(1 << r) - 1, (1 << g) - 1, (1 << b) - 1],
        }
    }
    /// number of colour values
    pub fn count(&self) -> u64 {
        match *self {
            Kind::Binary => 2,
            Kind::Gray { bits } => 1 << bits,
            Kind::Rgb { r, g, b, .. } => 1 << (r + g + b),
        }
    }
    /// channel values of the i-th colour value
    pub fn nth(&self, i: u64) -> [u8; 3] {
        match *self {
            Kind::Binary | Kind::Gray { .. } => [i as u8, 0, 0],
            Kind::Rgb { r, g, b, .. } => {
                let _ = r;
                [(i >> (g + b)) as u8, ((i >> b) & ((1 << g) - 1)) as u8, (i & ((1 << b) - 1)) as u8]
            }
        }
    }
    /// documented raw layout of channel values
    pub fn layout(&self, c: [u8; 3]) -> u32 {
        match *self {
            Kind::Binary | Kind::Gray { .. } => c[0] as u32,
            Kind::Rgb { r, g, b, bgr } => {
                if bgr {
                    ((c[2] as u32) << (g + r)) | ((c[1] as u32) << r) | c[0] as u32
                } else {
                    ((c[0] as u32) << (g + b)) | ((c[1] as u32) << b) | c[2] as u32
                }
            }
        }
    }
    /// bits of the raw value that carry channel data
    pub fn channel_mask(&self) -> u32 {
        match *self {
            Kind::Binary => 1,
            Kind::Gray { bits } => (1 << bits) - 1,
            Kind::Rgb { r, g, b, .. } => ((1u64 << (r + g + b)) - 1) as u32,
        }
    }
    pub fn is_rgb(&self) -> bool {
        matches!(self, Kind::Rgb { .. })
    }
}

macro_rules! col_common {
    ($t:ty) => {
        fn raw_u32(self) -> u32 {
            let r: <$t as PixelColor>::Raw = self.into();
            r.into_inner().into()
        }
        fn from_raw_u32(v: u32) -> Self {
            <$t>::from(<<$t as PixelColor>::Raw as RawData>::from_u32(v))
        }
        fn storage_u32(self) -> u32 {
            IntoStorage::into_storage(self).into()
        }
        fn be_bytes(self) -> Vec<u8> {
            ToBytes::to_be_bytes(self).as_ref().to_vec()
        }
        fn le_bytes(self) -> Vec<u8> {
            ToBytes::to_le_bytes(self).as_ref().to_vec()
        }
        fn ne_bytes(self) -> Vec<u8> {
            ToBytes::to_ne_bytes(self).as_ref().to_vec()
        }
        fn raw_bits() -> u32 {
            <<$t as PixelColor>::Raw as RawData>::BITS_PER_PIXEL as u32
        }
        fn storage_bits() -> u32 {
            (core::mem::size_of::<<<$t as PixelColor>::Raw as RawData>::Storage>() * 8) as u32
        }
    };
}

macro_rules! col_rgb {
    ($t:ident, $r:expr, $g:expr, $b:expr, $bgr:expr) => {
        impl Col for $t {
            const NAME: &'static str = stringify!($t);
            const KIND: Kind = Kind::Rgb { r: $r, g: $g, b: $b, bgr: $bgr };
            fn make(a: [u8; 3]) -> Self {
                <$t>::new(a[0], a[1], a[2])
            }
            fn chans(self) -> [u8; 3] {
                [self.r(), self.g(), self.b()]
            }
            fn black() -> Self {
                <$t as RgbColor>::BLACK
            }
            fn white() -> Self {
                <$t as RgbColor>::WHITE
            }
            col_common!($t);
        }
    };
}
macro_rules! col_gray {
    ($t:ident, $bits:expr) => {
        impl Col for $t {
            const NAME: &'static str = stringify!($t);
            const KIND: Kind = Kind::Gray { bits: $bits };
            fn make(a: [u8; 3]) -> Self {
                <$t>::new(a[0])
            }
            fn chans(self) -> [u8; 3] {
                [self.luma(), 0, 0]
            }
            fn black() -> Self {
                <$t as GrayColor>::BLACK
            }
            fn white() -> Self {
                <$t as GrayColor>::WHITE
            }
            col_common!($t);
        }
    };
}
col_rgb!(Rgb332, 3, 3, 2, false);
col_rgb!(Rgb444, 4, 4, 4, false);
col_rgb!(Rgb555, 5, 5, 5, false);
col_rgb!(Bgr555, 5, 5, 5, true);
col_rgb!(Rgb565, 5, 6, 5, false);
col_rgb!(Bgr565, 5, 6, 5, true);
col_rgb!(Rgb666, 6, 6, 6, false);
col_rgb!(Bgr666, 6, 6, 6, true);
col_rgb!(Rgb888, 8, 8, 8, false);
col_rgb!(Bgr888, 8, 8, 8, true);
col_gray!(Gray2, 2);
col_gray!(Gray4, 4);
col_gray!(Gray8, 8);
impl Col for BinaryColor {
    const NAME: &'static str = "BinaryColor";
    const KIND: Kind = Kind::Binary;
    fn make(a: [u8; 3]) -> Self {
        if a[0] != 0 {
            BinaryColor::On
        } else {
            BinaryColor::Off
        }
    }
    fn chans(self) -> [u8; 3] {
        [self.is_on() as u8, 0, 0]
    }
    fn black() -> Self {
        BinaryColor::Off
    }
    fn white() -> Self {
        BinaryColor::On
    }
    col_common!(BinaryColor);
}

/// Calls `$mac!(Type)` for each of the 14 colour types.
#[macro_export]
macro_rules! for_all_colors {
    ($mac:ident) => {
        $mac!(BinaryColor);
        $mac!(Gray2);
        $mac!(Gray4);
        $mac!(Gray8);
        $mac!(Rgb332);
        $mac!(Rgb444);
        $mac!(Rgb555);
        $mac!(Bgr555);
        $mac!(Rgb565);
        $mac!(Bgr565);
        $mac!(Rgb666);
        $mac!(Bgr666);
        $mac!(Rgb888);
        $mac!(Bgr888);
    };
}
