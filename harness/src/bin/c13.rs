//! C13 Colour conversions scale to the nearest value and preserve the extremes (complete enumeration)
use egverif::colors::*;
use egverif::fw::*;
use embedded_graphics::pixelcolor::*;
use serde::{Deserialize, Serialize};

#[derive(Clone, Debug, PartialEq, Eq, Hash, Serialize, Deserialize)]
struct Case {
    from: String,
    to: String,
    start: u64,
    len: u64,
}

fn near(s: u32, fm: u32, t: u32, tm: u32) -> bool {
    // |t/tm - s/fm| <= 1/(2 tm)  <=>  |t*fm - s*tm| * 2 <= fm
    ((t as i64 * fm as i64) - (s as i64 * tm as i64)).abs() * 2 <= fm as i64
}

fn check_pair<F: Col + Into<T> + Into<Gray8>, T: Col + Into<F>>(c: &Case, obs: &mut Obs) {
    let (fk, tk) = (F::KIND, T::KIND);
    let (fm, tm) = (fk.maxima(), tk.maxima());
    obs.mark_nontrivial();
    obs.count("conversions", c.len);
    let kind = match (fk, tk) {
        (Kind::Rgb { .. }, Kind::Rgb { .. }) => "rgb->rgb",
        (Kind::Gray { .. }, Kind::Gray { .. }) => "gray->gray",
        (Kind::Gray { .. }, Kind::Rgb { .. }) => "gray->rgb",
        (Kind::Rgb { .. }, Kind::Gray { .. }) => "rgb->gray",
        (Kind::Rgb { .. }, Kind::Binary) => "rgb->binary",
        (Kind::Gray { .. }, Kind::Binary) => "gray->binary",
        (Kind::Binary, _) => "binary->x",
    };
    obs.class(kind);
    // extremes
    if c.start == 0 {
        let b: T = F::black().into();
        let w: T = F::white().into();
        if b != T::black() || w != T::white() {
            obs.fail("black->black-and-white->white", format!("{} -> {}: black -> {:?}, white -> {:?}", F::NAME, T::NAME, b, w));
        }
    }
    let mut digest = 0u64;
    let conv = |ch: [u8; 3]| -> [u8; 3] {
        let t: T = F::make(ch).into();
        t.chans()
    };
    for i in c.start..c.start + c.len {
        let s = fk.nth(i);
        let src = F::make(s);
        let dst: T = src.into();
        let t = dst.chans();
        digest = digest.wrapping_mul(0x100000001B3).wrapping_add(dst.raw_u32() as u64);
        match kind {
            "rgb->rgb" | "gray->gray" | "gray->rgb" => {
                let nch = if tk.is_rgb() { 3 } else { 1 };
                let mut wide = true;
                for k in 0..nch {
                    let (sv, sm) = if fk.is_rgb() { (s[k] as u32, fm[k]) } else { (s[0] as u32, fm[0]) };
                    if !near(sv, sm, t[k] as u32, tm[k]) {
                        obs.fail("nearest-scaled-value", format!("{:?} -> {:?}: channel {k}: {sv}/{sm} -> {}/{} is not the nearest value", src, dst, t[k], tm[k]));
                    }
                    wide &= tm[k] >= sm;
                }
                if wide {
                    let back: F = dst.into();
                    if back != src {
                        obs.fail("widen-and-back-is-identity", format!("{:?} -> {:?} -> {:?}", src, dst, back));
                    }
                }
            }
            "rgb->gray" | "rgb->binary" | "gray->binary" => {
                // monotone non-decreasing in each channel (all others fixed)
                let nch = if fk.is_rgb() { 3 } else { 1 };
                for k in 0..nch {
                    if (s[k] as u32) < fm[k] {
                        let mut s2 = s;
                        s2[k] += 1;
                        if conv(s2)[0] < t[0] {
                            obs.fail("monotonic-in-each-channel", format!("{:?} -> {:?} but increasing channel {k} gives {:?}", src, dst, conv(s2)));
                        }
                    }
                }
                // luma band: the exact value lies between the library's 8-bit weights 77/150/29 (/256) and BT.601's
                // 0.299/0.587/0.114; sources narrower than 8 bits are widened to 8 bits first and targets other than
                // Gray8 are reached through Gray8, each of which may add half an 8-bit step
                if fk.is_rgb() {
                    let ch: [f64; 3] = [s[0] as f64 / fm[0] as f64, s[1] as f64 / fm[1] as f64, s[2] as f64 / fm[2] as f64];
                    let l1 = (77.0 * ch[0] + 150.0 * ch[1] + 29.0 * ch[2]) / 256.0 * 255.0;
                    let l2 = (0.299 * ch[0] + 0.587 * ch[1] + 0.114 * ch[2]) * 255.0;
                    let (lo, hi) = (l1.min(l2), l1.max(l2));
                    let slack = if fm.iter().any(|m| *m != 255) { 0.5 } else { 0.0 } + 1e-9;
                    if kind == "rgb->gray" {
                        let tol = 0.5 * 255.0 / tm[0] as f64 + slack + if tm[0] != 255 { 0.5 } else { 0.0 };
                        let got = t[0] as f64 * 255.0 / tm[0] as f64;
                        if got < lo - tol || got > hi + tol {
                            obs.fail("luma-is-nearest-weighted-sum", format!("{:?} -> {:?}: luma {:.3}..{:.3} (of 255), got {:.3}, tolerance {:.3}", src, dst, lo, hi, got, tol));
                        }
                    } else if (t[0] != 0 && hi < 127.5 - slack) || (t[0] == 0 && lo >= 128.0 + slack) {
                        obs.fail("binary-on-iff-upper-half-of-luma", format!("{:?}: luma {:.3}..{:.3} (of 255) -> {:?}", src, lo, hi, dst));
                    }
                }
                if kind == "rgb->binary" {
                    // On exactly for the upper half of the luma range (luma as the public RGB -> Gray8 conversion defines it)
                    let g8: Gray8 = src.into();
                    if (t[0] != 0) != (g8.luma() >= 128) {
                        obs.fail("binary-on-iff-upper-half-of-luma", format!("{:?}: luma {} -> {:?}", src, g8.luma(), dst));
                    }
                }
                if kind == "gray->binary" && (t[0] != 0) != (2 * s[0] as u32 > fm[0]) {
                    obs.fail("binary-on-iff-upper-half-of-luma", format!("{:?} -> {:?}", src, dst));
                }
            }
            _ => {
                // binary -> x
                let want = if s[0] != 0 { T::white() } else { T::black() };
                if dst != want {
                    obs.fail("binary-maps-to-black/white", format!("{:?} -> {:?}", src, dst));
                }
            }
        }
        if obs.violations.len() >= 6 {
            return;
        }
    }
    obs.outcome(&digest);
}

// gray -> rgb -> gray returns the original whenever every RGB channel is at least as wide
fn check_gray_rgb_gray<G: Col + Into<R>, R: Col + Into<G>>(obs: &mut Obs) {
    let (gk, rk) = (G::KIND, R::KIND);
    let gm = gk.maxima()[0];
    if rk.maxima().iter().all(|m| *m >= gm) {
        obs.class("gray->rgb->gray-identity");
        for l in 0..=gm {
            let g = G::make([l as u8, 0, 0]);
            let r: R = g.into();
            let back: G = r.into();
            if back != g {
                obs.fail("gray->rgb->gray-identity", format!("{:?} -> {:?} -> {:?}", g, r, back));
            }
            let ch = r.chans();
            let m = rk.maxima();
            // equally scaled channels
            for k in 0..3 {
                if !near(l, gm, ch[k] as u32, m[k]) {
                    obs.fail("gray->rgb-equally-scaled-channels", format!("{:?} -> {:?}", g, r));
                }
            }
        }
    }
}

macro_rules! pairs {
    ([$($f:ident),*], $ts:tt, $c:expr, $obs:expr) => { $( pairs!(@row $f, $ts, $c, $obs); )* };
    (@row $f:ident, [$($t:ident),*], $c:expr, $obs:expr) => { $(
        if $c.from == <$f as Col>::NAME && $c.to == <$t as Col>::NAME {
            check_pair::<$f, $t>($c, $obs);
            return;
        }
    )* };
}
macro_rules! gray_rgb {
    ([$($g:ident),*], $rs:tt, $c:expr, $obs:expr) => { $( gray_rgb!(@row $g, $rs, $c, $obs); )* };
    (@row $g:ident, [$($r:ident),*], $c:expr, $obs:expr) => { $(
        if $c.from == <$g as Col>::NAME && $c.to == <$r as Col>::NAME {
            check_gray_rgb_gray::<$g, $r>($obs);
        }
    )* };
}

const NAMES: [&str; 14] = ["BinaryColor", "Gray2", "Gray4", "Gray8", "Rgb332", "Rgb444", "Rgb555", "Bgr555", "Rgb565", "Bgr565", "Rgb666", "Bgr666", "Rgb888", "Bgr888"];

fn check(c: &Case, obs: &mut Obs) {
    if c.start == 0 {
        gray_rgb!([Gray2, Gray4, Gray8], [Rgb332, Rgb444, Rgb555, Bgr555, Rgb565, Bgr565, Rgb666, Bgr666, Rgb888, Bgr888], c, obs);
    }
    // BinaryColor has no Into<Gray8> requirement problem: From<BinaryColor> for Gray8 exists
    pairs!(
        [BinaryColor, Gray2, Gray4, Gray8, Rgb332, Rgb444, Rgb555, Bgr555, Rgb565, Bgr565, Rgb666, Bgr666, Rgb888, Bgr888],
        [BinaryColor, Gray2, Gray4, Gray8, Rgb332, Rgb444, Rgb555, Bgr555, Rgb565, Bgr565, Rgb666, Bgr666, Rgb888, Bgr888],
        c,
        obs
    );
    panic!("unknown pair {} -> {}", c.from, c.to);
}

// named colours: the constants are produced by a compile-time twin of From<Rgb888>; every constant must be what the
// run-time conversion of the documented 8-bit triple gives (and therefore the nearest value per channel)
#[derive(Clone, Debug, PartialEq, Eq, Hash, Serialize, Deserialize)]
struct Named {
    color: String,
}
fn named_check<T: Col + WebColors + From<Rgb888>>(obs: &mut Obs) {
    obs.mark_nontrivial();
    obs.class("named-colours");
    let tm = T::KIND.maxima();
    macro_rules! one {
        ($id:ident, $r:expr, $g:expr, $b:expr) => {{
            let c: T = <T as WebColors>::$id;
            let want: T = Rgb888::new($r, $g, $b).into();
            obs.count("named_colours", 1);
            if c != want {
                obs.fail("named-colour-equals-conversion-of-its-documented-triple", format!("{}::{} = {:?}, From<Rgb888>({}, {}, {}) = {:?}", T::NAME, stringify!($id), c, $r, $g, $b, want));
            }
            let ch = c.chans();
            for (k, s) in [$r as u32, $g as u32, $b as u32].into_iter().enumerate() {
                if !near(s, 255, ch[k] as u32, tm[k]) {
                    obs.fail("named-colour-is-nearest-to-its-documented-triple", format!("{}::{} = {:?} for ({}, {}, {})", T::NAME, stringify!($id), c, $r, $g, $b));
                }
            }
        }};
    }
    egverif::web_colors!(one);
}
fn check_named(c: &Named, obs: &mut Obs) {
    match c.color.as_str() {
        "Rgb555" => named_check::<Rgb555>(obs),
        "Bgr555" => named_check::<Bgr555>(obs),
        "Rgb565" => named_check::<Rgb565>(obs),
        "Bgr565" => named_check::<Bgr565>(obs),
        "Rgb666" => named_check::<Rgb666>(obs),
        "Bgr666" => named_check::<Bgr666>(obs),
        "Rgb888" => named_check::<Rgb888>(obs),
        "Bgr888" => named_check::<Bgr888>(obs),
        o => panic!("no named colours for {o}"),
    }
}

fn count_of(name: &str) -> u64 {
    macro_rules! arm {
        ($t:ident) => {
            if name == <$t as Col>::NAME {
                return <$t as Col>::KIND.count();
            }
        };
    }
    egverif::for_all_colors!(arm);
    unreachable!()
}

fn run_part(run: &mut Run) {
    run.sweep_vec(
        "conversions",
        "all 182 ordered pairs of the 14 built-in colour types x every source colour value (chunks of 2^18)",
        || {
            let mut v = vec![];
            for f in NAMES {
                for t in NAMES {
                    if f == t {
                        continue;
                    }
                    let n = count_of(f);
                    let chunk = 1u64 << 18;
                    let mut s = 0;
                    while s < n {
                        v.push(Case { from: f.to_string(), to: t.to_string(), start: s, len: chunk.min(n - s) });
                        s += chunk;
                    }
                }
            }
            v
        },
        check,
    );
    run.sweep_vec(
        "named-colours",
        "the 141 named web colours of the 8 colour types that have them",
        || ["Rgb555", "Bgr555", "Rgb565", "Bgr565", "Rgb666", "Bgr666", "Rgb888", "Bgr888"].iter().map(|c| Named { color: c.to_string() }).collect(),
        check_named,
    );
}

fn main() {
    egverif::fw::main(Prop {
        id: "C13",
        level: "exploration",
        rule: "complete enumeration: a case is one chunk of source values of one ordered pair of colour types (a pair without a conversion would not compile); the counter conversions gives the number of individual source values; per value: nearest scaled value per channel (unique because all maxima are odd), widening-and-back identity, RGB->gray/binary monotone in each channel, RGB->gray within half a target step (plus half an 8-bit step per intermediate 8-bit rounding) of the luma band spanned by the 77/150/29 (/256) and 0.299/0.587/0.114 weights, binary thresholds (against the same band and against the public Gray8 conversion), binary->x extremes; per pair: black->black, white->white, gray->rgb->gray identity; every named web colour constant equals the run-time conversion of its documented 8-bit triple",
        assumptions: &["'luma' is any value between the weighted sums with the library's 8-bit weights and with the BT.601 weights; RGB->BinaryColor must also agree with the public RGB->Gray8 conversion", "channel maxima come from the harness's independent width table"],
        parts: |_| vec![PartSpec::new("all", "verif")],
        run_part,
        required_classes: |_| vec!["rgb->rgb", "gray->gray", "gray->rgb", "rgb->gray", "rgb->binary", "gray->binary", "binary->x", "gray->rgb->gray-identity", "named-colours"],
        crash_is_verdict: false,
    })
}
