//! C06 Stroke and fill of closed shapes follow fill_area()/stroke_area()
use egverif::catalog::*;
use egverif::fw::*;
use egverif::targets::*;
use egverif::with_closed_styled;
use embedded_graphics::pixelcolor::Rgb565;
use embedded_graphics::primitives::Rectangle;

type C = Rgb565;

fn shapes(tier: Tier) -> Vec<Shape> {
    let t = tier.is_thorough();
    let mut v = vec![];
    for &(x, y) in &[(-2, -3), (10, 4)] {
        let e = tier.pick(0, 4);
        for w in 0..=7 + e {
            for h in 0..=7 + e {
                v.push(Shape::Rect { x, y, w, h });
            }
        }
        for d in 0..=14 + 2 * e {
            v.push(Shape::Circle { x, y, d });
        }
        for w in 0..=9 + e {
            for h in 0..=9 + e {
                v.push(Shape::Ellipse { x, y, w, h });
            }
        }
        for w in 0..=8 + e / 2 {
            for h in 0..=8 + e / 2 {
                for rx in 0..=4 {
                    for ry in 0..=4 {
                        v.push(Shape::rrect_eq(x, y, w, h, (rx, ry)));
                    }
                }
            }
        }
        let sizes: &[(u32, u32)] = if t { &[(7, 6), (3, 11), (8, 8), (10, 4), (1, 8), (12, 9)] } else { &[(7, 6), (3, 11), (8, 8)] };
        for &(w, h) in sizes {
            for tl in UNEQ {
                for tr in UNEQ {
                    for br in UNEQ {
                        for bl in UNEQ {
                            v.push(Shape::RRect { x, y, w, h, tl, tr, br, bl });
                        }
                    }
                }
            }
        }
        if !t {
            // second position only for a reduced set in quick
            break;
        }
    }
    if !t {
        let (x, y) = (10, 4);
        for w in 0..=5 {
            for h in 0..=5 {
                v.push(Shape::Rect { x, y, w, h });
                v.push(Shape::Ellipse { x, y, w, h });
                v.push(Shape::rrect_eq(x, y, w, h, (2, 1)));
            }
            v.push(Shape::Circle { x, y, d: w });
        }
    }
    v
}

fn grow(r: &Rectangle, n: i32) -> (i32, i32, i32, i32) {
    (r.top_left.x - n, r.top_left.y - n, r.top_left.x + r.size.width as i32 + n, r.top_left.y + r.size.height as i32 + n)
}

fn check(case: &Styled2, obs: &mut Obs) {
    let sty = case.sty;
    if let Some(d) = sty.entry_points_disagree::<C>() {
        obs.fail("style-entry-points-agree", d);
    }
    with_closed_styled!(
        &case.shape,
        sty.build::<C>(),
        C,
        |s, p| {
            let fa = s.fill_area();
            let sa = s.stroke_area();
            let shape_box = p.bounding_box();
            let (inside, outside) = sty.in_out();
            // probe region: union of shape box, stroke-area box and styled box, grown by 3
            let boxes = [shape_box, sa.bounding_box(), s.bounding_box(), fa.bounding_box()];
            let mut x0 = i32::MAX;
            let mut y0 = i32::MAX;
            let mut x1 = i32::MIN;
            let mut y1 = i32::MIN;
            for b in &boxes {
                let g = grow(b, 3);
                x0 = x0.min(g.0);
                y0 = y0.min(g.1);
                x1 = x1.max(g.2);
                y1 = y1.max(g.3);
            }
            let mut exp: Map<C> = Map::new();
            let mut fill_pts = 0u32;
            let mut stroke_pts = 0u32;
            let mut fa_any = false;
            for y in y0..y1 {
                for x in x0..x1 {
                    let q = Point::new(x, y);
                    let in_f = fa.contains(q);
                    // the areas seen through the ContainsPoint trait (what generic code gets) describe the same sets
                    if embedded_graphics::primitives::ContainsPoint::contains(&fa, q) != in_f || embedded_graphics::primitives::ContainsPoint::contains(&sa, q) != sa.contains(q) {
                        obs.fail("areas-through-the-ContainsPoint-trait", format!("point ({x},{y}): fill_area inherent {in_f} / trait {}, stroke_area inherent {} / trait {}", embedded_graphics::primitives::ContainsPoint::contains(&fa, q), sa.contains(q), embedded_graphics::primitives::ContainsPoint::contains(&sa, q)));
                    }
                    fa_any |= in_f;
                    if in_f {
                        if sty.fill {
                            exp.insert((x, y), C::FILL);
                            fill_pts += 1;
                        }
                    } else if sa.contains(q) && sty.w > 0 && sty.stroke {
                        exp.insert((x, y), sty.stroke_color::<C>());
                        stroke_pts += 1;
                    }
                }
            }
            let mut d = RecD::<C>::new();
            s.draw(&mut d).unwrap();
            let mut n = RecN::<C>::new();
            s.draw(&mut n).unwrap();
            let mut px = RecD::<C>::new();
            px.draw_iter(s.pixels()).unwrap();
            obs.outcome(&d.map);
            obs.nontrivial_if(!exp.is_empty() || !d.map.is_empty());
            obs.class(case.shape.kind());
            obs.class_if(sty.fill && !sty.stroke, "fill-only");
            obs.class_if(!sty.fill && sty.stroke && sty.w > 0, "stroke-only");
            obs.class_if(sty.fill && sty.stroke && sty.w > 0, "fill+stroke");
            obs.class_if(!sty.fill && (!sty.stroke || sty.w == 0), "transparent");
            let (sw, sh) = (shape_box.size.width, shape_box.size.height);
            let nondeg = sw > 0 && sh > 0;
            let cw = nondeg && 2 * inside >= sw;
            let ch = nondeg && 2 * inside >= sh;
            obs.class_if(cw && !ch, "fill-collapsed-width-only");
            obs.class_if(!cw && ch, "fill-collapsed-height-only");
            obs.class_if(cw && ch, "fill-collapsed-both");
            obs.class_if(nondeg && sty.w > sw.max(sh), "stroke-wider-than-shape");
            obs.class_if(fill_pts > 0 && stroke_pts > 0, "both-colours-painted");
            obs.class_if(sty.same, "stroke-colour-equals-fill-colour");
            if d.map != exp {
                obs.fail("draw-follows-fill_area/stroke_area", format!("draw() on draw_iter-only target vs areas: {}", map_diff(&d.map, &exp)));
            }
            if n.map != exp {
                obs.fail("draw-native-follows-fill_area/stroke_area", format!("draw() on native target vs areas: {}", map_diff(&n.map, &exp)));
            }
            if px.map != exp {
                obs.fail("pixels-follows-fill_area/stroke_area", format!("pixels() vs areas: {}", map_diff(&px.map, &exp)));
            }
            if nondeg {
                let sab = sa.bounding_box();
                let o = outside as i32;
                let want = (shape_box.top_left.x - o, shape_box.top_left.y - o, sw + 2 * outside, sh + 2 * outside);
                if rt(&sab) != want {
                    obs.fail("stroke-area-is-shape-grown-by-outside", format!("stroke_area box {:?} want {:?}", rt(&sab), want));
                }
                let i = inside as i32;
                if 2 * inside < sw && 2 * inside < sh {
                    let want = (shape_box.top_left.x + i, shape_box.top_left.y + i, sw - 2 * inside, sh - 2 * inside);
                    if rt(&fa.bounding_box()) != want {
                        obs.fail("fill-area-is-shape-shrunk-by-inside", format!("fill_area box {:?} want {:?}", rt(&fa.bounding_box()), want));
                    }
                } else if fa_any {
                    obs.fail("fill-area-collapses", format!("fill area should be empty (inside={inside}, shape {sw}x{sh}) but contains points; box {:?}", rt(&fa.bounding_box())));
                }
                // inside stroke never paints outside the shape; outside stroke never inside
                if sty.al == 1 {
                    if let Some((k, _)) = d.map.iter().find(|(k, _)| !p.contains(Point::new(k.0, k.1))) {
                        obs.fail("inside-stroke-stays-inside", format!("painted {:?} outside the shape", k));
                    }
                }
                if sty.al == 2 && !sty.same {
                    if let Some((k, _)) = d.map.iter().find(|(k, c)| **c == C::STROKE && p.contains(Point::new(k.0, k.1))) {
                        obs.fail("outside-stroke-stays-outside", format!("stroke colour at {:?} inside the shape", k));
                    }
                }
            }
        },
        unreachable!()
    )
}

fn run_part(run: &mut Run) {
    let tier = run.tier;
    run.sweep_vec(
        "display-scale",
        "the closed shapes of the display-scale catalogue (200..=320 px plus one 1024 px shape, three positions far from / across the origin) x 6 styles (widths 0, 1, 3, 20, 64, 300)",
        || product(&display_scale_catalogue().into_iter().filter(|s| s.is_closed()).collect::<Vec<_>>(), &display_scale_styles()),
        check,
    );
    run.sweep_vec(
        "closed-shapes",
        "Rectangle/Circle/Ellipse/RoundedRectangle sizes 0..N (incl. strokes wider than the shape) x S(W) styles plus stroke colour == fill colour x widths 1..=4 (6) x 3 alignments; W=6 quick, 10 thorough",
        || {
            let mut st = styles(tier.pick(6, 10));
            st.extend(styles_same_color(tier.pick(4, 6)));
            product(&shapes(tier), &st)
        },
        check,
    );
}

fn main() {
    egverif::fw::main(Prop {
        id: "C06",
        level: "exploration",
        rule: "every (closed shape, style) pair of the listed finite domain once; non-trivial = something is expected or drawn; draw() on both reference targets and pixels() are compared with the map predicted from contains() of fill_area()/stroke_area() over the union of all boxes grown by 3",
        assumptions: &["bounded to the listed sizes and stroke widths", "contains() of the returned areas is taken as the definition of the areas (C05 ties contains() to points())"],
        parts: |_| vec![PartSpec::new("all", "verif")],
        run_part,
        required_classes: |_| {
            vec!["rect", "circle", "ellipse", "rrect", "fill-only", "stroke-only", "fill+stroke", "transparent", "fill-collapsed-width-only", "fill-collapsed-height-only", "fill-collapsed-both", "stroke-wider-than-shape", "both-colours-painted", "stroke-colour-equals-fill-colour"]
        },
        crash_is_verdict: false,
    })
}
