//! Framework: tiers, per-case observation, parallel deterministic sweeps over listed domains,
//! explicit-state exploration over the real code, part reports, merge, known findings, evidence.
//!
//! Process layout: `egcheck`-style binaries (one per property) run as an *orchestrator* that
//! starts one child process per *part* (a part = a build variant + a named slice of the
//! property's domain), merges the part reports, applies `known_findings.txt`, writes the
//! evidence file and replay files and prints the verdict lines.  A child that dies is a
//! machinery failure (exit 2), never a verdict (C08 turns it into a verdict itself).

use rayon::prelude::*;
use serde::{de::DeserializeOwned, Deserialize, Serialize};
use std::cell::RefCell;
use std::collections::{BTreeMap, HashMap, HashSet};
use std::hash::{Hash, Hasher};
use std::panic::{catch_unwind, AssertUnwindSafe};
use std::path::{Path, PathBuf};
use std::time::Instant;

pub const MAX_STORED_VIOLATIONS: usize = 400_000;
pub const MAX_PRINTED_VIOLATIONS: usize = 20;

#[derive(Clone, Copy, PartialEq, Eq, Debug, Serialize, Deserialize)]
pub enum Tier {
    Quick,
    Thorough,
}
impl Tier {
    pub fn name(self) -> &'static str {
        match self {
            Tier::Quick => "quick",
            Tier::Thorough => "thorough",
        }
    }
    pub fn parse(s: &str) -> Option<Tier> {
        match s {
            "quick" => Some(Tier::Quick),
            "thorough" => Some(Tier::Thorough),
            _ => None,
        }
    }
    pub fn is_thorough(self) -> bool {
        self == Tier::Thorough
    }
    /// pick by tier
    pub fn pick<T>(self, quick: T, thorough: T) -> T {
        match self {
            Tier::Quick => quick,
            Tier::Thorough => thorough,
        }
    }
}

/// Build variants of the harness+library; the `check` script builds them and passes their paths in
/// `EGV_BIN_<variant>`.
pub const VARIANTS: [&str; 4] = ["verif", "verif_fp", "release", "release_fp"];

pub fn this_variant() -> &'static str {
    let fp = cfg!(feature = "fixed_point");
    let checked = cfg!(debug_assertions);
    match (checked, fp) {
        (true, false) => "verif",
        (true, true) => "verif_fp",
        (false, false) => "release",
        (false, true) => "release_fp",
    }
}

#[derive(Clone, Debug)]
pub struct PartSpec {
    pub name: String,
    pub variant: &'static str,
}
impl PartSpec {
    pub fn new(name: &str, variant: &'static str) -> Self {
        PartSpec { name: name.to_string(), variant }
    }
}

#[derive(Clone, Debug, Serialize, Deserialize, PartialEq, Eq)]
pub struct Violation {
    pub part: String,
    pub variant: String,
    pub group: String,
    pub clause: String,
    /// canonical one-line JSON text of the case
    pub case: String,
    pub detail: String,
    /// (sweep number, index in sweep): enumeration order, simplest first
    pub order: (u64, u64),
}
impl Violation {
    /// the text known-findings lists are matched against
    pub fn key(&self) -> String {
        format!("{}\t{}\t{}", self.group, self.clause, self.case)
    }
}

// ---------------------------------------------------------------------------------------------
// panic capture

thread_local! {
    static LAST_PANIC: RefCell<Option<String>> = const { RefCell::new(None) };
    static GUARD_DEPTH: std::cell::Cell<u32> = const { std::cell::Cell::new(0) };
}

pub fn install_panic_hook() {
    std::panic::set_hook(Box::new(|info| {
        let loc = info
            .location()
            .map(|l| format!("{}:{}", l.file().trim_start_matches("/repo/"), l.line()))
            .unwrap_or_else(|| "?".into());
        let msg = if let Some(s) = info.payload().downcast_ref::<&str>() {
            s.to_string()
        } else if let Some(s) = info.payload().downcast_ref::<String>() {
            s.clone()
        } else {
            "<non-string payload>".into()
        };
        // a panic raised inside the standard library (e.g. an overflow in i32::pow) is attributed to the
        // first frame of the library under test found in the backtrace
        let loc = if loc.starts_with("/rustc/") || loc.starts_with("/root/.rustup") {
            let bt = std::backtrace::Backtrace::force_capture().to_string();
            let mut found = None;
            for l in bt.lines() {
                let l = l.trim();
                if let Some(rest) = l.strip_prefix("at /repo/") {
                    // "<file>:<line>:<col>" or "<file>:<line>"
                    let parts: Vec<&str> = rest.split(':').collect();
                    let nums = parts.iter().rev().take_while(|p| !p.is_empty() && p.chars().all(|c| c.is_ascii_digit())).count();
                    let file = parts[..parts.len() - nums].join(":");
                    let line = if nums >= 1 { parts[parts.len() - nums] } else { "?" };
                    found = Some(format!("{file}:{line}"));
                    break;
                }
            }
            found.map(|f| format!("{f} (via {})", loc.rsplit('/').next().unwrap_or(""))).unwrap_or(loc)
        } else {
            loc
        };
        // a panic outside every guarded case would end the process silently: say where it came from
        if GUARD_DEPTH.try_with(|d| d.get()).unwrap_or(0) == 0 {
            eprintln!("MACHINERY: panic outside a guarded case at {loc}: {msg}\n{}", std::backtrace::Backtrace::force_capture());
        }
        let _ = LAST_PANIC.try_with(|c| *c.borrow_mut() = Some(format!("{loc}: {msg}")));
    }));
}

pub fn take_last_panic() -> String {
    LAST_PANIC
        .try_with(|c| c.borrow_mut().take())
        .ok()
        .flatten()
        .unwrap_or_else(|| "<no panic info>".into())
}

/// Runs `f`, returns Err(location: message) if it panicked.
pub fn guarded<R>(f: impl FnOnce() -> R) -> Result<R, String> {
    let _ = GUARD_DEPTH.try_with(|d| d.set(d.get() + 1));
    let r = catch_unwind(AssertUnwindSafe(f));
    let _ = GUARD_DEPTH.try_with(|d| d.set(d.get().saturating_sub(1)));
    match r {
        Ok(r) => Ok(r),
        Err(_) => Err(take_last_panic()),
    }
}


// ---------------------------------------------------------------------------------------------
// per-case watchdog: a case (or transition) that is still running after EGV_CASE_CAP_S seconds (default 120 s
// quick / 900 s thorough; ordinary cases take micro- to milliseconds) is reported as a violation of the clause
// "terminates" instead of letting the whole part run into its cap

use std::sync::atomic::{AtomicBool, AtomicU64, Ordering};

const WD_SLOTS: usize = 256;
#[allow(clippy::declare_interior_mutable_const)]
const WD_ZERO: AtomicU64 = AtomicU64::new(0);
static WD_START: [AtomicU64; WD_SLOTS] = [WD_ZERO; WD_SLOTS];
static WD_A: [AtomicU64; WD_SLOTS] = [WD_ZERO; WD_SLOTS];
static WD_B: [AtomicU64; WD_SLOTS] = [WD_ZERO; WD_SLOTS];
static WD_EPOCH: std::sync::OnceLock<Instant> = std::sync::OnceLock::new();
/// where a hang is reported: Part(out file) writes `<out>.hang` and exits 17; Replay(property, file) prints the verdict
pub enum HangMode {
    Part(PathBuf),
    Replay(String, PathBuf),
}
static WD_MODE: std::sync::OnceLock<HangMode> = std::sync::OnceLock::new();
pub const HANG_EXIT: i32 = 17;

fn wd_now() -> u64 {
    WD_EPOCH.get_or_init(Instant::now).elapsed().as_millis() as u64 + 1
}
fn wd_slot() -> usize {
    rayon::current_thread_index().map(|i| i + 1).unwrap_or(0) % WD_SLOTS
}
fn wd_enter(a: u64, b: u64) {
    let s = wd_slot();
    WD_A[s].store(a, Ordering::Relaxed);
    WD_B[s].store(b, Ordering::Relaxed);
    WD_START[s].store(wd_now(), Ordering::Release);
}
fn wd_leave() {
    WD_START[wd_slot()].store(0, Ordering::Release);
}
fn case_cap_ms(tier: Tier) -> u64 {
    std::env::var("EGV_CASE_CAP_S").ok().and_then(|s| s.parse::<u64>().ok()).unwrap_or(tier.pick(120, 900)) * 1000
}

/// Runs `body` while a watchdog thread looks at the slots of the worker threads; `resolve(a, b)` gives the case text
fn with_watchdog<R>(tier: Tier, group: &str, resolve: &(dyn Fn(u64, u64) -> String + Sync), body: impl FnOnce() -> R) -> R {
    let stop = AtomicBool::new(false);
    let cap = case_cap_ms(tier);
    // the body signals its end through the channel so that the watchdog ends at once instead of finishing its nap
    let (done_tx, done_rx) = std::sync::mpsc::channel::<()>();
    std::thread::scope(|sc| {
        sc.spawn(move || {
            while !stop.load(Ordering::Acquire) {
                if done_rx.recv_timeout(std::time::Duration::from_millis(100)).is_ok() {
                    return;
                }
                let now = wd_now();
                for s in 0..WD_SLOTS {
                    let st = WD_START[s].load(Ordering::Acquire);
                    if st != 0 && now.saturating_sub(st) > cap {
                        let (a, b) = (WD_A[s].load(Ordering::Relaxed), WD_B[s].load(Ordering::Relaxed));
                        if WD_START[s].load(Ordering::Acquire) != st {
                            continue;
                        }
                        let text = resolve(a, b);
                        let detail = format!("the case was still running after {} s (ordinary cases take milliseconds)", cap / 1000);
                        match WD_MODE.get() {
                            Some(HangMode::Part(out)) => {
                                let v = serde_json::json!({"group": group, "clause": "terminates", "case": text, "detail": detail});
                                let mut f = out.clone().into_os_string();
                                f.push(".hang");
                                let _ = std::fs::write(PathBuf::from(f), serde_json::to_vec(&v).unwrap());
                                eprintln!("HANG group={group} case={text}");
                                std::process::exit(HANG_EXIT);
                            }
                            Some(HangMode::Replay(prop, file)) => {
                                println!("observed: clause=terminates detail={detail}");
                                println!("VIOLATION property={} replay={}", prop, file.display());
                                std::process::exit(1);
                            }
                            None => {
                                eprintln!("HANG group={group} case={text} ({detail})");
                                std::process::exit(HANG_EXIT);
                            }
                        }
                    }
                }
            }
        });
        let r = body();
        let _ = done_tx.send(());
        r
    })
}


// ---------------------------------------------------------------------------------------------
// iterator protocol: every way of consuming an iterator of the library must deliver the sequence that
// repeated next() delivers (a specialised fold/count/last/nth/size_hint must agree with next())

/// `make` creates a fresh iterator; the reference sequence is what repeated `next()` yields (at most `limit` items,
/// longer iterators are skipped).  From every position (sequences of up to 10 items) or from the positions 0, 1, 2, 3,
/// n/2, n-1, n (after that many `next()` calls) the rest
/// is consumed by fold, count, last, nth(j)+next, for_each and through a clone taken at that position, and size_hint
/// must bracket the remaining length.
pub fn iter_protocol<I, T>(name: &str, limit: usize, make: impl Fn() -> I, obs: &mut Obs)
where
    I: Iterator<Item = T> + Clone,
    T: PartialEq + core::fmt::Debug,
{
    let mut reference: Vec<T> = vec![];
    let mut it = make();
    while let Some(x) = it.next() {
        reference.push(x);
        if reference.len() > limit {
            return;
        }
    }
    // an exhausted iterator stays exhausted
    if it.next().is_some() {
        obs.fail("iterator-protocol", format!("{name}: next() after the end yields an item again"));
    }
    let n = reference.len();
    obs.class("iterator-protocol");
    // short sequences: every position and every nth argument; longer ones: a spread of both
    let exhaustive = n <= 10;
    let mut ks: Vec<usize> = if exhaustive { (0..=n).collect() } else { vec![0, 1, 2, 3, n / 2, n.saturating_sub(1), n] };
    ks.sort();
    ks.dedup();
    for k in ks {
        if k > n {
            continue;
        }
        let adv = || {
            let mut it = make();
            for _ in 0..k {
                it.next();
            }
            it
        };
        let want = &reference[k..];
        // a clone taken at this position continues like the original, and using the clone leaves the original alone
        {
            let mut orig = adv();
            let mut cl = orig.clone();
            let from_clone: Vec<T> = core::iter::from_fn(|| cl.next()).take(limit + 1).collect();
            let from_orig: Vec<T> = core::iter::from_fn(|| orig.next()).take(limit + 1).collect();
            if from_clone != want || from_orig != want {
                obs.fail("iterator-protocol", format!("{name}: a clone taken after {k} items yields {} items, the original then {} items, next() on a fresh iterator {}", from_clone.len(), from_orig.len(), want.len()));
            }
        }
        let (lo, hi) = adv().size_hint();
        if lo > want.len() || hi.is_some_and(|h| h < want.len()) {
            obs.fail("iterator-protocol", format!("{name}: after {k} items size_hint = ({lo}, {hi:?}) but {} items remain", want.len()));
        }
        let folded: Vec<T> = adv().fold(vec![], |mut v, x| {
            v.push(x);
            v
        });
        if folded != want {
            obs.fail("iterator-protocol", format!("{name}: after {k} items fold yields {} items, next() yields {} (first difference at {:?})", folded.len(), want.len(), folded.iter().zip(want.iter()).position(|(a, b)| a != b)));
        }
        let c = adv().count();
        if c != want.len() {
            obs.fail("iterator-protocol", format!("{name}: after {k} items count() = {c}, next() yields {}", want.len()));
        }
        let l = adv().last();
        if l.as_ref() != want.last() {
            obs.fail("iterator-protocol", format!("{name}: after {k} items last() = {:?}, expected {:?}", l, want.last()));
        }
        let mut each: Vec<T> = vec![];
        adv().for_each(|x| each.push(x));
        if each != want {
            obs.fail("iterator-protocol", format!("{name}: after {k} items for_each yields {} items, next() yields {}", each.len(), want.len()));
        }
        let mut js: Vec<usize> = if exhaustive { (0..=want.len() + 1).collect() } else { vec![0, 1, 2, want.len() / 2, want.len().saturating_sub(1), want.len(), want.len() + 1] };
        js.sort();
        js.dedup();
        for j in js {
            let mut it = adv();
            let got = it.nth(j);
            let then = it.next();
            if got.as_ref() != want.get(j) || then.as_ref() != want.get(j + 1) {
                obs.fail("iterator-protocol", format!("{name}: after {k} items nth({j}) = {:?} then next() = {:?}, expected {:?} then {:?}", got, then, want.get(j), want.get(j + 1)));
            }
        }
        if obs.violations.len() > 8 {
            return;
        }
    }
}

// ---------------------------------------------------------------------------------------------
// per-case observation

pub struct Obs {
    pub violations: Vec<(String, String)>,
    hasher: std::collections::hash_map::DefaultHasher,
    pub nontrivial: bool,
    pub classes: Vec<&'static str>,
    pub counters: Vec<(&'static str, u64)>,
}
impl Default for Obs {
    fn default() -> Self {
        Self::new()
    }
}
impl Obs {
    pub fn new() -> Self {
        Obs {
            violations: vec![],
            hasher: std::collections::hash_map::DefaultHasher::new(),
            nontrivial: false,
            classes: vec![],
            counters: vec![],
        }
    }
    /// record a violation of `clause`
    pub fn fail(&mut self, clause: &str, detail: impl Into<String>) {
        if self.violations.len() < 8 {
            let mut d: String = detail.into();
            if d.len() > 1500 {
                let mut cut = 1500;
                while !d.is_char_boundary(cut) {
                    cut -= 1;
                }
                d.truncate(cut);
                d.push_str("...");
            }
            self.violations.push((clause.to_string(), d));
        }
    }
    pub fn check(&mut self, ok: bool, clause: &str, detail: impl FnOnce() -> String) {
        if !ok {
            self.fail(clause, detail());
        }
    }
    /// feed part of the observation (for counting distinct outcomes)
    pub fn outcome<H: Hash + ?Sized>(&mut self, h: &H) {
        h.hash(&mut self.hasher);
    }
    pub fn mark_nontrivial(&mut self) {
        self.nontrivial = true;
    }
    pub fn nontrivial_if(&mut self, b: bool) {
        if b {
            self.nontrivial = true;
        }
    }
    pub fn class(&mut self, c: &'static str) {
        if !self.classes.contains(&c) {
            self.classes.push(c);
        }
    }
    pub fn class_if(&mut self, b: bool, c: &'static str) {
        if b {
            self.class(c);
        }
    }
    pub fn count(&mut self, name: &'static str, n: u64) {
        for e in self.counters.iter_mut() {
            if e.0 == name {
                e.1 += n;
                return;
            }
        }
        self.counters.push((name, n));
    }
    pub fn max(&mut self, name: &'static str, n: u64) {
        // stored under "max:<name>" semantics handled in Acc via prefix
        for e in self.counters.iter_mut() {
            if e.0 == name {
                e.1 = e.1.max(n);
                return;
            }
        }
        self.counters.push((name, n));
    }
}

#[derive(Clone, Debug, Default, Serialize, Deserialize)]
pub struct ClassStat {
    pub count: u64,
    pub first: Option<(u64, u64)>,
    pub witness: String,
}

#[derive(Clone, Debug, Default, Serialize, Deserialize)]
pub struct GroupStat {
    pub evaluations: u64,
    pub nontrivial: u64,
    pub violations: u64,
    pub domain: String,
}

/// What one part (child process) reports.
#[derive(Clone, Debug, Default, Serialize, Deserialize)]
pub struct Report {
    pub part: String,
    pub variant: String,
    pub evaluations: u64,
    pub distinct_nontrivial: u64,
    pub distinct_outcomes: u64,
    pub classes: BTreeMap<String, ClassStat>,
    pub counters: BTreeMap<String, u64>,
    pub groups: BTreeMap<String, GroupStat>,
    pub violations: Vec<Violation>,
    pub violations_total: u64,
    pub samples: Vec<serde_json::Value>,
    pub notes: Vec<String>,
    pub wall_s: f64,
}

#[derive(Default)]
struct Acc {
    evals: u64,
    nontriv: Vec<u64>,
    outcomes: Vec<u64>,
    classes: HashMap<&'static str, ClassStat>,
    counters: HashMap<&'static str, u64>,
    violations: Vec<Violation>,
    nviol: u64,
}
impl Acc {
    fn merge(mut self, mut o: Acc) -> Acc {
        self.evals += o.evals;
        self.nontriv.append(&mut o.nontriv);
        self.outcomes.append(&mut o.outcomes);
        for (k, v) in o.classes {
            let e = self.classes.entry(k).or_default();
            e.count += v.count;
            if e.first.is_none() || (v.first.is_some() && v.first < e.first) {
                e.first = v.first;
                e.witness = v.witness;
            }
        }
        for (k, v) in o.counters {
            let e = self.counters.entry(k).or_default();
            if k.starts_with("max_") {
                *e = (*e).max(v);
            } else {
                *e += v;
            }
        }
        self.nviol += o.nviol;
        self.violations.append(&mut o.violations);
        self
    }
}

pub fn case_text<C: Serialize>(c: &C) -> String {
    serde_json::to_string(c).expect("case serialises")
}

fn hash64<H: Hash + ?Sized>(h: &H) -> u64 {
    let mut s = std::collections::hash_map::DefaultHasher::new();
    h.hash(&mut s);
    s.finish()
}

fn dedup_count(v: &mut Vec<u64>) -> u64 {
    v.sort_unstable();
    v.dedup();
    v.len() as u64
}

// ---------------------------------------------------------------------------------------------
// a run of one part

pub struct Replay {
    pub group: String,
    pub case: serde_json::Value,
}

pub struct Run {
    pub tier: Tier,
    pub part: String,
    pub seed: i64,
    pub replay: Option<Replay>,
    pub replay_results: Vec<Vec<(String, String)>>,
    sweep_no: u64,
    nontriv: Vec<u64>,
    outcomes: Vec<u64>,
    pub report: Report,
    start: Instant,
}

impl Run {
    pub fn new(tier: Tier, part: &str, seed: i64) -> Run {
        Run {
            tier,
            part: part.to_string(),
            seed,
            replay: None,
            replay_results: vec![],
            sweep_no: 0,
            nontriv: vec![],
            outcomes: vec![],
            report: Report { part: part.to_string(), variant: this_variant().to_string(), ..Default::default() },
            start: Instant::now(),
        }
    }

    pub fn note(&mut self, s: impl Into<String>) {
        self.report.notes.push(s.into());
    }

    fn absorb(&mut self, group: &str, domain: &str, mut acc: Acc, samples: Vec<serde_json::Value>) {
        let r = &mut self.report;
        r.evaluations += acc.evals;
        let g = r.groups.entry(group.to_string()).or_default();
        g.evaluations += acc.evals;
        g.nontrivial += acc.nontriv.len() as u64;
        g.violations += acc.nviol;
        if g.domain.is_empty() {
            g.domain = domain.to_string();
        }
        self.nontriv.append(&mut acc.nontriv);
        self.outcomes.append(&mut acc.outcomes);
        if self.nontriv.len() > 8_000_000 {
            dedup_count(&mut self.nontriv);
        }
        if self.outcomes.len() > 8_000_000 {
            dedup_count(&mut self.outcomes);
        }
        for (k, v) in acc.classes {
            let e = r.classes.entry(k.to_string()).or_default();
            e.count += v.count;
            if e.first.is_none() {
                e.first = v.first;
                e.witness = v.witness;
            }
        }
        for (k, v) in acc.counters {
            let e = r.counters.entry(k.to_string()).or_default();
            if k.starts_with("max_") {
                *e = (*e).max(v);
            } else {
                *e += v;
            }
        }
        r.violations_total += acc.nviol;
        acc.violations.sort_by(|a, b| a.order.cmp(&b.order));
        for v in acc.violations {
            if r.violations.len() < MAX_STORED_VIOLATIONS {
                r.violations.push(v);
            }
        }
        for s in samples {
            if r.samples.len() < 40 {
                r.samples.push(s);
            }
        }
    }

    /// Evaluate `f` on every case `get(0..n)`, in parallel, deterministically.  A panic inside `f`
    /// is recorded as a violation of clause "no-panic".  In replay mode only the recorded case of
    /// the matching group is run (twice).
    pub fn sweep<C, G, F>(&mut self, group: &str, domain: &str, n: usize, get: G, f: F)
    where
        C: Serialize + DeserializeOwned + Hash + Send,
        G: Fn(usize) -> C + Sync,
        F: Fn(&C, &mut Obs) + Sync,
    {
        if let Some(rp) = &self.replay {
            if rp.group == group {
                let c: C = serde_json::from_value(rp.case.clone()).expect("replay case parses for this group");
                let text = case_text(&c);
                for _ in 0..2 {
                    let mut obs = Obs::new();
                    let r = with_watchdog(self.tier, group, &|_, _| text.clone(), || {
                        wd_enter(0, 0);
                        let r = guarded(|| f(&c, &mut obs));
                        wd_leave();
                        r
                    });
                    if let Err(p) = r {
                        obs.fail("no-panic", p);
                    }
                    self.replay_results.push(obs.violations);
                }
            }
            return;
        }
        self.sweep_no += 1;
        let sweep_no = self.sweep_no;
        let part = self.part.clone();
        let variant = this_variant().to_string();
        let tier = self.tier;
        let acc = with_watchdog(tier, group, &|a, _| case_text(&get(a as usize)), || (0..n)
            .into_par_iter()
            .fold(Acc::default, |mut acc, i| {
                let c = get(i);
                let mut obs = Obs::new();
                wd_enter(i as u64, 0);
                let r = guarded(|| f(&c, &mut obs));
                wd_leave();
                if let Err(p) = r {
                    obs.fail("no-panic", p);
                }
                acc.evals += 1;
                let ch = hash64(&c);
                if obs.nontrivial {
                    acc.nontriv.push(ch);
                    acc.outcomes.push(obs.hasher.finish());
                }
                let need_text = !obs.violations.is_empty()
                    || obs.classes.iter().any(|k| !acc.classes.contains_key(k));
                let text = if need_text { case_text(&c) } else { String::new() };
                for k in &obs.classes {
                    let e = acc.classes.entry(k).or_default();
                    e.count += 1;
                    if e.first.is_none() {
                        e.first = Some((sweep_no, i as u64));
                        e.witness = text.clone();
                    }
                }
                for (k, v) in &obs.counters {
                    let e = acc.counters.entry(k).or_default();
                    if k.starts_with("max_") {
                        *e = (*e).max(*v);
                    } else {
                        *e += *v;
                    }
                }
                if !obs.violations.is_empty() {
                    acc.nviol += 1;
                    if acc.violations.len() < MAX_STORED_VIOLATIONS {
                        // one stored violation per (case, clause)
                        let mut seen: Vec<&str> = vec![];
                        for (clause, detail) in &obs.violations {
                            if seen.contains(&clause.as_str()) {
                                continue;
                            }
                            seen.push(clause);
                            acc.violations.push(Violation {
                                part: part.clone(),
                                variant: variant.clone(),
                                group: group.to_string(),
                                clause: clause.clone(),
                                case: text.clone(),
                                detail: detail.clone(),
                                order: (sweep_no, i as u64),
                            });
                        }
                    }
                }
                acc
            })
            .reduce(Acc::default, Acc::merge));
        let mut samples = vec![];
        if n > 0 {
            let mut idx = vec![0, n / 2, n - 1];
            idx.dedup();
            for i in idx {
                samples.push(serde_json::json!({"group": group, "index": i, "case": serde_json::to_value(get(i)).unwrap()}));
            }
        }
        self.absorb(group, &format!("{domain} [{n} cases]"), acc, samples);
    }

    pub fn sweep_vec<C, F>(&mut self, group: &str, domain: &str, cases: impl FnOnce() -> Vec<C>, f: F)
    where
        C: Serialize + DeserializeOwned + Hash + Send + Sync + Clone,
        F: Fn(&C, &mut Obs) + Sync,
    {
        if self.replay.is_some() {
            self.sweep::<C, _, _>(group, domain, 0, |_| unreachable!(), f);
            return;
        }
        let v = cases();
        self.sweep(group, domain, v.len(), |i| v[i].clone(), f);
    }

    pub fn finish(mut self) -> Report {
        self.report.distinct_nontrivial = dedup_count(&mut self.nontriv);
        self.report.distinct_outcomes = dedup_count(&mut self.outcomes);
        self.report.wall_s = self.start.elapsed().as_secs_f64();
        self.report
    }
}

// ---------------------------------------------------------------------------------------------
// explicit-state exploration (level-synchronous BFS, transition function = the real code)

pub trait Model: Sync {
    /// real object + reference model
    type State: Clone + Send + Sync;
    type Init: Clone + Serialize + DeserializeOwned + Hash + Send + Sync;
    type Action: Clone + Serialize + DeserializeOwned + Hash + Send + Sync + core::fmt::Debug + PartialEq;

    fn init(&self, i: &Self::Init) -> Self::State;
    fn actions(&self, i: &Self::Init, s: &Self::State, depth: usize) -> Vec<Self::Action>;
    /// Apply `a` with the real code on a clone of the real object, apply it to the reference model,
    /// check the step oracle and the invariants of the successor.
    fn step(&self, i: &Self::Init, s: &Self::State, a: &Self::Action, obs: &mut Obs) -> Self::State;
    /// invariants of a state (also run on initial states)
    fn check_state(&self, _i: &Self::Init, _s: &Self::State, _obs: &mut Obs) {}
    /// canonical key of the *real* object's observable content
    fn key(&self, s: &Self::State) -> u64;
}

#[derive(Serialize, Deserialize, Hash, Clone)]
pub struct PathCase<I, A> {
    pub init: I,
    pub actions: Vec<A>,
}

#[derive(Default, Debug, Clone)]
pub struct ExploreStats {
    pub states: u64,
    pub transitions: u64,
    pub max_depth: u64,
    pub per_level: Vec<(u64, u64)>,
}

impl Run {
    /// BFS to `depth` from every init; every transition is executed on the implementation and
    /// compared with the model inside `Model::step` (so traces validated == transitions).
    pub fn explore<M: Model>(&mut self, group: &str, domain: &str, model: &M, inits: Vec<M::Init>, depth: usize) -> ExploreStats {
        if let Some(rp) = &self.replay {
            if rp.group == group {
                let pc: PathCase<M::Init, M::Action> =
                    serde_json::from_value(rp.case.clone()).expect("replay path parses");
                let text = case_text(&pc);
                for _ in 0..2 {
                    let mut obs = Obs::new();
                    let r = with_watchdog(self.tier, group, &|_, _| text.clone(), || {
                        wd_enter(0, 0);
                        let r = guarded(|| {
                            let mut s = model.init(&pc.init);
                            model.check_state(&pc.init, &s, &mut obs);
                            for a in &pc.actions {
                                s = model.step(&pc.init, &s, a, &mut obs);
                            }
                        });
                        wd_leave();
                        r
                    });
                    if let Err(p) = r {
                        obs.fail("no-panic", p);
                    }
                    self.replay_results.push(obs.violations);
                }
            }
            return ExploreStats::default();
        }
        self.sweep_no += 1;
        let sweep_no = self.sweep_no;
        let part = self.part.clone();
        let variant = this_variant().to_string();
        let mut stats = ExploreStats::default();
        let mut acc = Acc::default();
        let mut samples = vec![];
        let mut order: u64 = 0;

        struct Node<M: Model> {
            init_ix: usize,
            state: M::State,
            hist: Vec<M::Action>,
        }
        let mut seen: HashSet<(usize, u64)> = HashSet::new();
        let mut frontier: Vec<Node<M>> = vec![];
        for (ix, i) in inits.iter().enumerate() {
            let mut obs = Obs::new();
            let st = guarded(|| {
                let s = model.init(i);
                model.check_state(i, &s, &mut obs);
                s
            });
            match st {
                Ok(s) => {
                    let k = model.key(&s);
                    if seen.insert((ix, k)) {
                        stats.states += 1;
                        acc.nontriv.push(hash64(&(ix, k)));
                        acc.outcomes.push(k);
                        frontier.push(Node { init_ix: ix, state: s, hist: vec![] });
                    }
                }
                Err(p) => obs.fail("no-panic", p),
            }
            if !obs.violations.is_empty() {
                acc.nviol += 1;
                let text = case_text(&PathCase::<M::Init, M::Action> { init: i.clone(), actions: vec![] });
                for (clause, detail) in obs.violations {
                    acc.violations.push(Violation {
                        part: part.clone(),
                        variant: variant.clone(),
                        group: group.to_string(),
                        clause,
                        case: text.clone(),
                        detail,
                        order: (sweep_no, order),
                    });
                }
            }
            order += 1;
        }
        for level in 0..depth {
            if frontier.is_empty() {
                break;
            }
            // expand every frontier node in parallel; results kept in frontier order
            struct Out<M: Model> {
                init_ix: usize,
                hist: Vec<M::Action>,
                next: Option<(M::State, u64)>,
                obs: Obs,
            }
            let tier = self.tier;
            let resolve = |fi: u64, ai: u64| -> String {
                let n = &frontier[fi as usize];
                let init = &inits[n.init_ix];
                let mut hist = n.hist.clone();
                if let Some(a) = model.actions(init, &n.state, level).into_iter().nth(ai as usize) {
                    hist.push(a);
                }
                case_text(&PathCase::<M::Init, M::Action> { init: init.clone(), actions: hist })
            };
            let outs: Vec<Vec<Out<M>>> = with_watchdog(tier, group, &resolve, || frontier
                .par_iter()
                .enumerate()
                .map(|(fi, n)| {
                    let init = &inits[n.init_ix];
                    let acts = model.actions(init, &n.state, level);
                    acts.into_iter()
                        .enumerate()
                        .map(|(ai, a)| {
                            let mut obs = Obs::new();
                            wd_enter(fi as u64, ai as u64);
                            let r = guarded(|| {
                                let s2 = model.step(init, &n.state, &a, &mut obs);
                                let k = model.key(&s2);
                                (s2, k)
                            });
                            wd_leave();
                            let mut hist = n.hist.clone();
                            hist.push(a);
                            let next = match r {
                                Ok(x) => Some(x),
                                Err(p) => {
                                    obs.fail("no-panic", p);
                                    None
                                }
                            };
                            Out { init_ix: n.init_ix, hist, next, obs }
                        })
                        .collect()
                })
                .collect());
            let mut next_frontier: Vec<Node<M>> = vec![];
            let mut trans_level = 0u64;
            for out in outs.into_iter().flatten() {
                stats.transitions += 1;
                trans_level += 1;
                acc.evals += 1;
                for k in &out.obs.classes {
                    let e = acc.classes.entry(k).or_default();
                    e.count += 1;
                    if e.first.is_none() {
                        e.first = Some((sweep_no, order));
                        e.witness =
                            case_text(&PathCase::<M::Init, M::Action> { init: inits[out.init_ix].clone(), actions: out.hist.clone() });
                    }
                }
                for (k, v) in &out.obs.counters {
                    let e = acc.counters.entry(k).or_default();
                    if k.starts_with("max_") {
                        *e = (*e).max(*v);
                    } else {
                        *e += *v;
                    }
                }
                if !out.obs.violations.is_empty() {
                    acc.nviol += 1;
                    let text =
                        case_text(&PathCase::<M::Init, M::Action> { init: inits[out.init_ix].clone(), actions: out.hist.clone() });
                    let mut seen_c: Vec<String> = vec![];
                    for (clause, detail) in &out.obs.violations {
                        if seen_c.contains(clause) || acc.violations.len() >= MAX_STORED_VIOLATIONS {
                            continue;
                        }
                        seen_c.push(clause.clone());
                        acc.violations.push(Violation {
                            part: part.clone(),
                            variant: variant.clone(),
                            group: group.to_string(),
                            clause: clause.clone(),
                            case: text.clone(),
                            detail: detail.clone(),
                            order: (sweep_no, order),
                        });
                    }
                }
                if samples.len() < 3 && (order % 997 == 3 || stats.transitions == 1) {
                    samples.push(serde_json::json!({"group": group, "path": serde_json::to_value(PathCase::<M::Init, M::Action>{ init: inits[out.init_ix].clone(), actions: out.hist.clone() }).unwrap()}));
                }
                order += 1;
                if let Some((s2, k)) = out.next {
                    if seen.insert((out.init_ix, k)) {
                        stats.states += 1;
                        acc.nontriv.push(hash64(&(out.init_ix, k)));
                        acc.outcomes.push(k);
                        next_frontier.push(Node { init_ix: out.init_ix, state: s2, hist: out.hist });
                    }
                }
            }
            stats.per_level.push((next_frontier.len() as u64, trans_level));
            stats.max_depth = level as u64 + 1;
            frontier = next_frontier;
        }
        acc.counters.insert("states", stats.states);
        acc.counters.insert("transitions", stats.transitions);
        acc.counters.insert("traces_validated_against_impl", stats.transitions);
        acc.counters.insert("max_depth", stats.max_depth);
        self.absorb(
            group,
            &format!("{domain} [BFS depth {depth} from {} initial states: {} states, {} transitions]", inits.len(), stats.states, stats.transitions),
            acc,
            samples,
        );
        stats
    }
}

// ---------------------------------------------------------------------------------------------
// second explorer: the same model objects run through stateright's BFS (thorough tiers)

struct SrModel<M: Model> {
    m: std::sync::Arc<M>,
    inits: std::sync::Arc<Vec<M::Init>>,
    depth: usize,
    calls: std::sync::atomic::AtomicU64,
}
struct SrState<M: Model> {
    init_ix: usize,
    depth: usize,
    key: u64,
    state: std::sync::Arc<M::State>,
}
impl<M: Model> Clone for SrState<M> {
    fn clone(&self) -> Self {
        SrState { init_ix: self.init_ix, depth: self.depth, key: self.key, state: self.state.clone() }
    }
}
impl<M: Model> core::fmt::Debug for SrState<M> {
    fn fmt(&self, f: &mut core::fmt::Formatter<'_>) -> core::fmt::Result {
        write!(f, "SrState(init {}, depth {}, key {:016x})", self.init_ix, self.depth, self.key)
    }
}
// identity of a state = canonical content only (not the depth at which it was first seen)
impl<M: Model> PartialEq for SrState<M> {
    fn eq(&self, o: &Self) -> bool {
        self.init_ix == o.init_ix && self.key == o.key
    }
}
impl<M: Model> Eq for SrState<M> {}
impl<M: Model> Hash for SrState<M> {
    fn hash<H: Hasher>(&self, h: &mut H) {
        self.init_ix.hash(h);
        self.key.hash(h);
    }
}
impl<M: Model + Send + 'static> stateright::Model for SrModel<M>
where
    M::State: 'static,
    M::Init: 'static,
    M::Action: 'static,
{
    type State = SrState<M>;
    type Action = M::Action;
    fn init_states(&self) -> Vec<Self::State> {
        self.inits
            .iter()
            .enumerate()
            .map(|(ix, i)| {
                let s = self.m.init(i);
                let key = self.m.key(&s);
                SrState { init_ix: ix, depth: 0, key, state: std::sync::Arc::new(s) }
            })
            .collect()
    }
    fn actions(&self, s: &Self::State, out: &mut Vec<Self::Action>) {
        if s.depth < self.depth {
            out.extend(self.m.actions(&self.inits[s.init_ix], &s.state, s.depth));
        }
    }
    fn next_state(&self, s: &Self::State, a: Self::Action) -> Option<Self::State> {
        self.calls.fetch_add(1, std::sync::atomic::Ordering::Relaxed);
        let mut obs = Obs::new();
        let init = &self.inits[s.init_ix];
        let n = guarded(|| self.m.step(init, &s.state, &a, &mut obs)).ok()?;
        let key = self.m.key(&n);
        Some(SrState { init_ix: s.init_ix, depth: s.depth + 1, key, state: std::sync::Arc::new(n) })
    }
    fn properties(&self) -> Vec<stateright::Property<Self>> {
        vec![stateright::Property::always("explored", |_, _| true)]
    }
}

impl Run {
    /// Re-explores the same model with stateright's single-threaded BFS and requires the same number
    /// of unique states and of transition-function calls as `explore` reported.  A disagreement is a
    /// machinery failure (panic -> child exit != 0), never a verdict.
    pub fn cross_check_stateright<M: Model + Send + 'static>(&mut self, group: &str, model: std::sync::Arc<M>, inits: Vec<M::Init>, depth: usize, own: &ExploreStats)
    where
        M::State: 'static,
        M::Init: 'static,
        M::Action: 'static,
    {
        use stateright::{Checker, Model as _};
        if self.replay.is_some() {
            return;
        }
        let t0 = Instant::now();
        let sr = SrModel { m: model, inits: std::sync::Arc::new(inits), depth, calls: std::sync::atomic::AtomicU64::new(0) };
        let checker = sr.checker().threads(1).spawn_bfs().join();
        let unique = checker.unique_state_count() as u64;
        let calls = checker.model().calls.load(std::sync::atomic::Ordering::Relaxed);
        self.note(format!("stateright cross-check of {group}: unique states {unique} (own {}), next_state calls {calls} (own transitions {}), {:.1}s", own.states, own.transitions, t0.elapsed().as_secs_f64()));
        let c = self.report.counters.entry("stateright_unique_states".into()).or_default();
        *c += unique;
        let c = self.report.counters.entry("stateright_next_state_calls".into()).or_default();
        *c += calls;
        // a state that fails an invariant is reported and not merged by the own explorer, so the two engines only have
        // to agree when the run is free of violations (the verdict is then decided by the violations, not by the counts)
        if self.report.violations_total > 0 {
            self.note(format!("stateright cross-check of {group}: counts not compared because the run has violations"));
            return;
        }
        assert!(unique == own.states && calls == own.transitions, "MACHINERY: stateright and the own explorer disagree on {group}: unique {unique} vs {}, calls {calls} vs {}", own.states, own.transitions);
    }
}

// ---------------------------------------------------------------------------------------------
// property definition + orchestration

pub struct Prop {
    pub id: &'static str,
    /// evidence level: exploration | fault_enumeration | model_checking
    pub level: &'static str,
    pub rule: &'static str,
    pub assumptions: &'static [&'static str],
    pub parts: fn(Tier) -> Vec<PartSpec>,
    pub run_part: fn(&mut Run),
    /// classes that must have been hit (after merging all parts), else the run is vacuous (exit 2)
    pub required_classes: fn(Tier) -> Vec<&'static str>,
    /// a child that dies or hangs is a verdict (C08) instead of a machinery failure
    pub crash_is_verdict: bool,
}

fn verif_dir() -> PathBuf {
    std::env::var("EGV_VERIF_DIR").map(PathBuf::from).unwrap_or_else(|_| PathBuf::from("/verif"))
}

fn variant_bin(variant: &str) -> Option<PathBuf> {
    if variant == this_variant() {
        return std::env::current_exe().ok();
    }
    std::env::var(format!("EGV_BIN_{variant}")).ok().map(PathBuf::from)
}

#[derive(Debug, Clone)]
pub struct OpenFinding {
    pub id: String,
    pub property: String,
    pub what: String,
    pub keys: HashSet<String>,
}

pub fn load_known_findings(property: &str) -> Vec<OpenFinding> {
    let dir = verif_dir();
    let mut out = vec![];
    let Ok(text) = std::fs::read_to_string(dir.join("known_findings.txt")) else {
        return out;
    };
    for line in text.lines() {
        let line = line.trim();
        if !line.starts_with("open:") {
            continue;
        }
        let rest = line["open:".len()..].trim();
        let mut fields: BTreeMap<String, String> = BTreeMap::new();
        // key=value tokens; `what=` takes the rest of the line
        let mut it = rest;
        loop {
            it = it.trim_start();
            if it.is_empty() {
                break;
            }
            if let Some(w) = it.strip_prefix("what=") {
                fields.insert("what".into(), w.to_string());
                break;
            }
            let end = it.find(' ').unwrap_or(it.len());
            let tok = &it[..end];
            if let Some((k, v)) = tok.split_once('=') {
                fields.insert(k.to_string(), v.to_string());
            }
            it = &it[end..];
        }
        if fields.get("property").map(|s| s.as_str()) != Some(property) {
            continue;
        }
        let mut keys = HashSet::new();
        if let Some(f) = fields.get("cases") {
            if let Ok(t) = std::fs::read_to_string(dir.join(f)) {
                for l in t.lines() {
                    if !l.is_empty() && !l.starts_with('#') {
                        keys.insert(l.to_string());
                    }
                }
            }
        }
        out.push(OpenFinding {
            id: fields.get("id").cloned().unwrap_or_default(),
            property: property.to_string(),
            what: fields.get("what").cloned().unwrap_or_default(),
            keys,
        });
    }
    out
}

struct Args {
    tier: Tier,
    part: Option<String>,
    out: Option<PathBuf>,
    replay: Option<PathBuf>,
    replay_child: bool,
    dump: Option<PathBuf>,
    list_parts: bool,
}

fn parse_args() -> Args {
    let mut a = Args {
        tier: Tier::Quick,
        part: None,
        out: None,
        replay: None,
        replay_child: false,
        dump: None,
        list_parts: false,
    };
    let argv: Vec<String> = std::env::args().skip(1).collect();
    let mut i = 0;
    while i < argv.len() {
        match argv[i].as_str() {
            "quick" | "thorough" => a.tier = Tier::parse(&argv[i]).unwrap(),
            "--tier" => {
                i += 1;
                a.tier = Tier::parse(&argv[i]).expect("tier");
            }
            "--part" => {
                i += 1;
                a.part = Some(argv[i].clone());
            }
            "--out" => {
                i += 1;
                a.out = Some(PathBuf::from(&argv[i]));
            }
            "--replay" => {
                i += 1;
                a.replay = Some(PathBuf::from(&argv[i]));
            }
            "--replay-child" => a.replay_child = true,
            "--dump-violations" => {
                i += 1;
                a.dump = Some(PathBuf::from(&argv[i]));
            }
            "--list-parts" => a.list_parts = true,
            other => {
                eprintln!("unknown argument {other}");
                std::process::exit(2);
            }
        }
        i += 1;
    }
    if let Ok(t) = std::env::var("VERIF_TIER") {
        if let Some(t) = Tier::parse(&t) {
            if a.replay.is_none() && a.part.is_none() {
                a.tier = t;
            }
        }
    }
    a
}

fn seed() -> i64 {
    std::env::var("VERIF_SEED").ok().and_then(|s| s.parse().ok()).unwrap_or(0)
}

pub fn main(prop: Prop) -> ! {
    install_panic_hook();
    let args = parse_args();
    if args.list_parts {
        for p in (prop.parts)(args.tier) {
            println!("{} {}", p.name, p.variant);
        }
        std::process::exit(0);
    }
    if let Some(f) = &args.replay {
        std::process::exit(replay_main(&prop, f, args.replay_child));
    }
    if let Some(part) = &args.part {
        // child: run one part, write the report
        let out = args.out.expect("--out");
        let _ = WD_MODE.set(HangMode::Part(out.clone()));
        let mut run = Run::new(args.tier, part, seed());
        (prop.run_part)(&mut run);
        let rep = run.finish();
        std::fs::write(&out, serde_json::to_vec(&rep).unwrap()).expect("write part report");
        std::process::exit(0);
    }
    std::process::exit(orchestrate(&prop, args.tier, args.dump.as_deref()));
}

fn replay_main(prop: &Prop, file: &Path, child: bool) -> i32 {
    let text = match std::fs::read_to_string(file) {
        Ok(t) => t,
        Err(e) => {
            eprintln!("cannot read replay file {}: {e}", file.display());
            return 2;
        }
    };
    let v: serde_json::Value = serde_json::from_str(&text).expect("replay file is JSON");
    let variant = v["variant"].as_str().unwrap_or("verif").to_string();
    if variant != this_variant() && !child {
        let Some(bin) = variant_bin(&variant) else {
            eprintln!("variant {variant} binary not available (EGV_BIN_{variant})");
            return 2;
        };
        let st = std::process::Command::new(bin).arg("--replay").arg(file).arg("--replay-child").status();
        return st.ok().and_then(|s| s.code()).unwrap_or(2);
    }
    let tier = Tier::parse(v["tier"].as_str().unwrap_or("quick")).unwrap_or(Tier::Quick);
    let part = v["part"].as_str().unwrap_or("").to_string();
    let clause = v["clause"].as_str().unwrap_or("").to_string();
    let mut run = Run::new(tier, &part, seed());
    run.replay = Some(Replay { group: v["group"].as_str().unwrap_or("").to_string(), case: v["case"].clone() });
    println!("replay property={} part={} variant={} group={} case={}", prop.id, part, variant, v["group"], v["case"]);
    println!("recorded: clause={} detail={}", clause, v["detail"].as_str().unwrap_or(""));
    let _ = WD_MODE.set(HangMode::Replay(prop.id.to_string(), file.to_path_buf()));
    (prop.run_part)(&mut run);
    if run.replay_results.len() != 2 {
        eprintln!("replay: group {:?} was not found in part {:?} (results {})", v["group"], part, run.replay_results.len());
        return 2;
    }
    if run.replay_results[0] != run.replay_results[1] {
        eprintln!("replay: two executions of the same case diverge — machinery error\n1: {:?}\n2: {:?}", run.replay_results[0], run.replay_results[1]);
        return 2;
    }
    let res = &run.replay_results[0];
    if res.is_empty() {
        println!("observed: no violation (the case passes on this tree)");
        return 0;
    }
    for (c, d) in res {
        println!("observed: clause={c} detail={d}");
    }
    println!("VIOLATION property={} replay={}", prop.id, file.display());
    1
}

fn orchestrate(prop: &Prop, tier: Tier, dump: Option<&Path>) -> i32 {
    let t0 = Instant::now();
    let vd = verif_dir();
    let ev_dir = vd.join("evidence");
    let parts_dir = ev_dir.join("parts");
    let replay_dir = ev_dir.join("replay");
    let _ = std::fs::create_dir_all(&parts_dir);
    let _ = std::fs::create_dir_all(&replay_dir);
    let ev_file = ev_dir.join(format!("{}.json", prop.id));
    let _ = std::fs::remove_file(&ev_file);
    // old replay files of this property
    if let Ok(rd) = std::fs::read_dir(&replay_dir) {
        for e in rd.flatten() {
            if e.file_name().to_string_lossy().starts_with(&format!("{}-", prop.id)) {
                let _ = std::fs::remove_file(e.path());
            }
        }
    }
    let parts = (prop.parts)(tier);
    let cap_s: u64 = std::env::var("EGV_PART_CAP_S").ok().and_then(|s| s.parse().ok()).unwrap_or(tier.pick(900, 6 * 3600));
    let mut reports: Vec<Report> = vec![];
    let mut crash_violations: Vec<Violation> = vec![];
    for p in &parts {
        let Some(bin) = variant_bin(p.variant) else {
            eprintln!("MACHINERY: binary for variant {} not available (EGV_BIN_{})", p.variant, p.variant);
            return 2;
        };
        let out = parts_dir.join(format!("{}.{}.{}.json", prop.id, tier.name(), p.name));
        let _ = std::fs::remove_file(&out);
        clear_announced(prop.id);
        let mut child = std::process::Command::new(&bin)
            .arg("--tier")
            .arg(tier.name())
            .arg("--part")
            .arg(&p.name)
            .arg("--out")
            .arg(&out)
            .spawn()
            .expect("spawn part");
        let started = Instant::now();
        let status = loop {
            match child.try_wait() {
                Ok(Some(s)) => break Some(s),
                Ok(None) => {
                    if started.elapsed().as_secs() > cap_s {
                        let _ = child.kill();
                        let _ = child.wait();
                        break None;
                    }
                    std::thread::sleep(std::time::Duration::from_millis(20));
                }
                Err(_) => break None,
            }
        };
        let ok = status.map(|s| s.success()).unwrap_or(false);
        // a case that did not terminate within the per-case cap (reported by the child's watchdog)
        if status.and_then(|s| s.code()) == Some(HANG_EXIT) {
            let mut hf = out.clone().into_os_string();
            hf.push(".hang");
            let hf = PathBuf::from(hf);
            if let Some(h) = std::fs::read(&hf).ok().and_then(|b| serde_json::from_slice::<serde_json::Value>(&b).ok()) {
                let _ = std::fs::remove_file(&hf);
                crash_violations.push(Violation {
                    part: p.name.clone(),
                    variant: p.variant.to_string(),
                    group: h["group"].as_str().unwrap_or("").to_string(),
                    clause: "terminates".into(),
                    case: h["case"].as_str().unwrap_or("").to_string(),
                    detail: h["detail"].as_str().unwrap_or("").to_string(),
                    order: (0, 0),
                });
                continue;
            }
        }
        if !ok {
            let announced = read_announced(prop.id);
            if prop.crash_is_verdict {
                crash_violations.push(Violation {
                    part: p.name.clone(),
                    variant: p.variant.to_string(),
                    group: "process".into(),
                    clause: if status.is_none() { "terminates".into() } else { "no-abort".into() },
                    case: announced.trim().to_string(),
                    detail: format!("child process {:?} (cap {cap_s}s)", status),
                    order: (0, 0),
                });
                continue;
            }
            eprintln!("MACHINERY: part {} ({}) of {} failed: {:?} (cap {cap_s}s); announced case: {}", p.name, p.variant, prop.id, status, announced.trim());
            return 2;
        }
        let rep: Report = match std::fs::read(&out).ok().and_then(|b| serde_json::from_slice(&b).ok()) {
            Some(r) => r,
            None => {
                eprintln!("MACHINERY: part {} wrote no valid report", p.name);
                return 2;
            }
        };
        let _ = std::fs::remove_file(&out);
        clear_announced(prop.id);
        reports.push(rep);
    }

    // merge
    let mut evaluations = 0u64;
    let mut distinct_nontrivial = 0u64;
    let mut distinct_outcomes = 0u64;
    let mut classes: BTreeMap<String, ClassStat> = BTreeMap::new();
    let mut counters: BTreeMap<String, u64> = BTreeMap::new();
    let mut groups: BTreeMap<String, GroupStat> = BTreeMap::new();
    let mut violations: Vec<Violation> = crash_violations;
    let mut violations_total = violations.len() as u64;
    let mut samples: Vec<serde_json::Value> = vec![];
    let mut part_summ = vec![];
    let mut notes = vec![];
    for r in &reports {
        evaluations += r.evaluations;
        distinct_nontrivial += r.distinct_nontrivial;
        distinct_outcomes += r.distinct_outcomes;
        for (k, v) in &r.classes {
            let e = classes.entry(k.clone()).or_default();
            e.count += v.count;
            if e.first.is_none() {
                e.first = v.first;
                e.witness = v.witness.clone();
            }
        }
        for (k, v) in &r.counters {
            let e = counters.entry(k.clone()).or_default();
            if k.starts_with("max_") {
                *e = (*e).max(*v);
            } else {
                *e += *v;
            }
        }
        for (k, v) in &r.groups {
            let key = if reports.len() > 1 { format!("{}/{}", r.part, k) } else { k.clone() };
            groups.insert(key, v.clone());
        }
        violations_total += r.violations_total;
        violations.extend(r.violations.iter().cloned());
        for s in r.samples.iter().take(12) {
            if samples.len() < 30 {
                samples.push(s.clone());
            }
        }
        for n in &r.notes {
            notes.push(format!("{}: {}", r.part, n));
        }
        part_summ.push(serde_json::json!({"part": r.part, "variant": r.variant, "evaluations": r.evaluations,
            "distinct_nontrivial": r.distinct_nontrivial, "distinct_outcomes": r.distinct_outcomes, "violations": r.violations_total, "wall_s": r.wall_s}));
    }
    let truncated = violations_total as usize > violations.len() && violations.len() >= MAX_STORED_VIOLATIONS;

    if let Some(d) = dump {
        let mut s = String::new();
        for v in &violations {
            s.push_str(&v.key());
            s.push('\n');
        }
        let _ = std::fs::write(d, s);
    }

    // known findings
    let findings = load_known_findings(prop.id);
    let mut reobserved: BTreeMap<String, u64> = BTreeMap::new();
    let mut fresh: Vec<&Violation> = vec![];
    for v in &violations {
        let k = v.key();
        let mut known = false;
        for f in &findings {
            if f.keys.contains(&k) {
                *reobserved.entry(f.id.clone()).or_default() += 1;
                known = true;
                break;
            }
        }
        if !known {
            fresh.push(v);
        }
    }

    // clusters of violations (group, clause, variant) -> count, first case
    let mut clusters: BTreeMap<String, (u64, String, String)> = BTreeMap::new();
    for v in &violations {
        let e = clusters.entry(format!("{}|{}|{}", v.group, v.clause, v.variant)).or_insert((0, v.case.clone(), v.detail.clone()));
        e.0 += 1;
    }
    if !clusters.is_empty() {
        eprintln!("violation clusters (group|clause|variant: count, first case):");
        for (k, (n, c, d)) in &clusters {
            eprintln!("  {k}: {n}  first={c}  {d}");
        }
    }

    // vacuity
    let mut missing = vec![];
    for c in (prop.required_classes)(tier) {
        if classes.get(c).map(|s| s.count).unwrap_or(0) == 0 {
            missing.push(c);
        }
    }

    // class witnesses as samples
    for (k, v) in classes.iter().take(24) {
        if samples.len() < 60 && !v.witness.is_empty() {
            let case: serde_json::Value = serde_json::from_str(&v.witness).unwrap_or(serde_json::Value::Null);
            samples.push(serde_json::json!({"class": k, "first_case": case}));
        }
    }

    // replay files + verdict lines
    let mut lines = vec![];
    for f in &findings {
        if let Some(n) = reobserved.get(&f.id) {
            lines.push(format!("KNOWN-FINDING: property={} {} ({} listed cases re-observed, id {})", prop.id, f.what, n, f.id));
        }
    }
    let mut replay_written = 0;
    for (n, v) in fresh.iter().enumerate() {
        if n >= MAX_PRINTED_VIOLATIONS {
            break;
        }
        let path = replay_dir.join(format!("{}-{}.json", prop.id, n + 1));
        let case: serde_json::Value = serde_json::from_str(&v.case).unwrap_or(serde_json::Value::String(v.case.clone()));
        let j = serde_json::json!({"property": prop.id, "tier": tier.name(), "part": v.part, "variant": v.variant,
            "group": v.group, "clause": v.clause, "case": case, "detail": v.detail});
        let _ = std::fs::write(&path, serde_json::to_string_pretty(&j).unwrap());
        replay_written += 1;
        lines.push(format!("VIOLATION property={} replay={}", prop.id, path.display()));
        eprintln!("  [{}] {} :: {} :: {} :: {}", v.part, v.group, v.clause, v.case, v.detail);
    }
    let _ = replay_written;

    let exhaustive = missing.is_empty() && !truncated;
    let mut coverage = serde_json::json!({
        "evaluations": evaluations,
        "distinct_nontrivial": distinct_nontrivial,
        "distinct_outcomes": distinct_outcomes,
        "rule": prop.rule,
        "samples": samples,
        "exhaustive": exhaustive,
        "classes": classes.iter().map(|(k, v)| (k.clone(), serde_json::json!(v.count))).collect::<serde_json::Map<_, _>>(),
        "groups": groups,
        "parts": part_summ,
        "counters": counters,
        "notes": notes,
        "known_findings_reobserved": reobserved,
        "violating_cases_total": violations_total,
        "violations_not_listed": fresh.len(),
        "violation_clusters": clusters.iter().map(|(k, v)| (k.clone(), serde_json::json!({"count": v.0, "first_case": v.1}))).collect::<serde_json::Map<_, _>>(),
    });
    if prop.level == "model_checking" {
        for k in ["states", "transitions", "traces_validated_against_impl", "max_depth"] {
            coverage[k] = serde_json::json!(counters.get(k).copied().unwrap_or(0));
        }
    }
    if let Some(e) = counters.get("stateright_unique_states") {
        coverage["stateright_unique_states"] = serde_json::json!(e);
    }
    let evidence = serde_json::json!({
        "property_id": prop.id,
        "tier": tier.name(),
        "seed": seed(),
        "level": prop.level,
        "coverage": coverage,
        "assumptions": prop.assumptions,
        "wall_s": t0.elapsed().as_secs_f64(),
        "violations": fresh.len(),
    });
    std::fs::write(&ev_file, serde_json::to_string_pretty(&evidence).unwrap()).expect("write evidence");

    for l in &lines {
        println!("{l}");
    }
    println!(
        "{} {}: evaluations={} distinct_nontrivial={} distinct_outcomes={} violating_cases={} unlisted={} wall={:.1}s",
        prop.id,
        tier.name(),
        evaluations,
        distinct_nontrivial,
        distinct_outcomes,
        violations_total,
        fresh.len(),
        t0.elapsed().as_secs_f64()
    );
    if !fresh.is_empty() {
        return 1;
    }
    if truncated {
        eprintln!("MACHINERY: more than {MAX_STORED_VIOLATIONS} violations, list truncated");
        return 2;
    }
    if !missing.is_empty() {
        eprintln!("MACHINERY: vacuity guard: classes never hit: {missing:?}");
        return 2;
    }
    if evaluations == 0 {
        eprintln!("MACHINERY: nothing evaluated");
        return 2;
    }
    0
}

/// child-side: announce the case this worker thread is about to run (for crash attribution in C08)
pub fn announce_thread(prop_id: &str, text: &str) {
    let t = rayon::current_thread_index().unwrap_or(999);
    let p = verif_dir().join("evidence").join("parts").join(format!("{prop_id}.announce.{t}"));
    let _ = std::fs::write(p, text);
}

fn read_announced(prop_id: &str) -> String {
    let dir = verif_dir().join("evidence").join("parts");
    let mut v = vec![];
    if let Ok(rd) = std::fs::read_dir(&dir) {
        for e in rd.flatten() {
            if e.file_name().to_string_lossy().starts_with(&format!("{prop_id}.announce.")) {
                if let Ok(t) = std::fs::read_to_string(e.path()) {
                    v.push(t);
                }
            }
        }
    }
    v.sort();
    format!("[{}]", v.join(","))
}

fn clear_announced(prop_id: &str) {
    let dir = verif_dir().join("evidence").join("parts");
    if let Ok(rd) = std::fs::read_dir(&dir) {
        for e in rd.flatten() {
            if e.file_name().to_string_lossy().starts_with(&format!("{prop_id}.announce.")) {
                let _ = std::fs::remove_file(e.path());
            }
        }
    }
}
