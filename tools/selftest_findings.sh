#!/bin/bash
# tools/selftest_findings.sh — exercises the known-findings protocol end to end on C16 with two seeded changes:
#   1. with seeded/C16-A applied and its failing cases listed as an open finding, the check prints KNOWN-FINDING and exits 0;
#   2. with seeded/C16-B applied in addition (a different violation of the same property), the check reports VIOLATION and exits 1;
#   3. on the unchanged tree with the open finding still listed, the check exits 0 without any KNOWN-FINDING line.
# Uses a temporary copy of known_findings.txt (EGV_VERIF_DIR) so the committed file is never touched.
set -u
cd "$(dirname "$0")/.."
V=$(pwd)
[ -z "$(git -C /repo status --porcelain)" ] || { echo "/repo not clean" >&2; exit 2; }
T=$(mktemp -d /tmp/egv-selftest.XXXX)
mkdir -p "$T/known_findings" "$T/evidence"
cp known_findings.txt "$T/"
./check C16 quick >/dev/null 2>&1   # build
BIN=harness/target/verif/c16
git -C /repo apply "$V/seeded/C16-A/patch.diff"
./check C16 quick >/dev/null 2>&1   # rebuild with the defect
EGV_VERIF_DIR="$T" $BIN quick --dump-violations "$T/known_findings/FTEST.txt" >/dev/null 2>&1
echo "open: property=C16 id=FTEST cases=known_findings/FTEST.txt what=selftest: center() rounds towards zero for negative even rectangles" >> "$T/known_findings.txt"
out1=$(EGV_VERIF_DIR="$T" $BIN quick 2>/dev/null); rc1=$?
git -C /repo apply "$V/seeded/C16-B/patch.diff"
./check C16 quick >/dev/null 2>&1
out2=$(EGV_VERIF_DIR="$T" $BIN quick 2>/dev/null); rc2=$?
git -C /repo checkout -- .
./check C16 quick >/dev/null 2>&1
out3=$(EGV_VERIF_DIR="$T" $BIN quick 2>/dev/null); rc3=$?
echo "step 1 (listed defect):      exit=$rc1  $(echo "$out1" | grep -c '^KNOWN-FINDING') KNOWN-FINDING, $(echo "$out1" | grep -c '^VIOLATION') VIOLATION"
echo "step 2 (plus a new defect):  exit=$rc2  $(echo "$out2" | grep -c '^KNOWN-FINDING') KNOWN-FINDING, $(echo "$out2" | grep -c '^VIOLATION') VIOLATION"
echo "step 3 (repaired tree):      exit=$rc3  $(echo "$out3" | grep -c '^KNOWN-FINDING') KNOWN-FINDING, $(echo "$out3" | grep -c '^VIOLATION') VIOLATION"
echo "$out1" | grep '^KNOWN-FINDING' | head -2
rm -rf "$T"
[ $rc1 = 0 ] && [ $rc2 = 1 ] && [ $rc3 = 0 ] && echo "$out1" | grep -q '^KNOWN-FINDING' && ! echo "$out3" | grep -q '^KNOWN-FINDING' && { echo "selftest ok"; exit 0; }
echo "selftest FAILED"; exit 1
