#!/usr/bin/env python3
"""tools/seed_prompt.py <ID> <round>  -- write the brief for a fresh sub-agent that is to produce seeded changes.

The brief contains only: the text of property <ID> (title, statement, quantifier from properties.jsonl), the path
of the agent's own scratch worktree (/tmp/wt-<ID>r<round>, created here from /repo HEAD), and -- from round 2 on --
the first lines of the notes the earlier agents wrote about their own changes, so that mechanisms are not repeated.
Nothing about the checks in /verif is given.  Output: /tmp/seeded-out/<ID>r<round>.prompt.txt
"""
import glob, json, os, subprocess, sys

pid, rnd = sys.argv[1], int(sys.argv[2])
tag = pid if rnd == 1 else f'{pid}r{rnd}'
wt = f'/tmp/wt-{tag}'
out = f'/tmp/seeded-out/{tag}'
os.makedirs('/tmp/seeded-out', exist_ok=True)
prop = next(json.loads(l) for l in open('/verif/properties.jsonl') if json.loads(l)['id'] == pid)
if not os.path.isdir(wt):
    subprocess.run(['git', '-C', '/repo', 'worktree', 'add', '--detach', wt, 'HEAD'], check=True, capture_output=True)

earlier = []
for d in sorted(glob.glob(f'/verif/seeded/{pid}*-[AB]')):
    m = json.load(open(d + '/meta.json'))
    if m.get('breaks_property') != pid and not os.path.basename(d).startswith(pid):
        continue
    notes = open(d + '/notes.md').read().strip().split('\n')
    head = ' '.join(x.strip() for x in notes[:4])[:330]
    earlier.append(f"- {', '.join(m.get('files_changed', []))}: {head}")

extra = ''
if earlier:
    extra = ('\n\nIMPORTANT additional guidance for this round: other engineers have ALREADY produced the following changes for this '
             'property; do NOT repeat them or close variants of them; use different files, functions and mechanisms:\n' + '\n'.join(earlier) + '\n\n'
             'In this round be creative about WHERE and WHEN the property can break: helper functions and iterators several calls away from the '
             'obvious site; rarely used public entry points, constructors, `From`/`Default`/builder conversions and trait implementations that are '
             'supposed to be equivalent to the common ones; code paths selected by a style/flag combination; state carried inside an iterator, '
             'builder or adapter across calls; integer width/overflow/rounding at moderately large but realistic values (display sizes such as '
             '240x320, 480x272, 800x600, 1024 px); behaviour that depends on the draw target (its bounding box, position, size, an adapter in '
             'front of it); inputs on the far side of zero (negative coordinates, objects left of / above the origin); and interactions between '
             'two built-in components (an adapter plus a drawable, a sub-image of a sub-image, a font plus a decoration, a framebuffer used as an '
             'image); specialised `Iterator` methods (`nth`, `size_hint`, `fold`, `count`, `last`) and `Clone`/`Default`/`From` implementations that must agree with the plain ones; caches, memos and fast paths added as optimisations; arithmetic that only misbehaves in release builds (silent wrap-around) or only in debug builds (overflow panic); data or sizes that alias (multiples of 8, 256 or 65536); and behaviour that differs between the first and a later use of the same object. Do not use the `fixed_point` cargo feature. Never run `pkill`/`killall` and never use `git stash` (other engineers share this machine and the stash is shared between worktrees; use `git diff > file` and `git apply` instead). If after a '
             'serious search you can only find one acceptable change, deliver one.')
    if rnd >= 7:
        extra += (' For THIS round in particular: read the statement sentence by sentence and attack the clause that is LEAST represented in the list above; '
                  'prefer changes that need a COMBINATION of two or three parameter values to manifest (e.g. one stroke alignment + one size parity + a negative coordinate; '
                  'one data order + one bit depth + a width that is not a multiple of the pixels per byte; one baseline + one alignment + a multi-line string), '
                  'or a HISTORY of several operations on the same object/target (second call differs from first, state left behind by an earlier call, an object that was '
                  'cloned, translated, resized or re-styled before use), or an object obtained through a less common route (a primitive converted from another, '
                  'a style derived from another, a sub-image of a framebuffer image, a polyline over a slice with an offset, a rectangle from with_corners/with_center). '
                  'Keep the change realistic: it should read like a plausible refactoring or optimisation.')
    if rnd >= 8:
        extra += (' ADDITIONALLY for this round, three directions that earlier rounds have used little: (1) a draw target is free to consume whatever the library hands it in any '
                  'legal way - any `Iterator` method (`fold`, `for_each`, `nth`, `skip`, `step_by`, `size_hint`, `count`, `last`, `by_ref` and partial consumption) on the pixel and colour iterators, '
                  'any bounding box (not at the origin, empty, huge, negative), one of the library adapters or a `Framebuffer`/`MockDisplay` as the target - and user code may call any public '
                  'method in any order and reuse objects; look for library code that silently assumes one particular way. (2) Shared low-level helpers, especially in the `core` crate '
                  '(`Point`/`Size` arithmetic, conversions and component helpers, `Rectangle` helpers, `AnchorPoint`, `Angle`/trigonometry, `Real`, `PointsIter`), whose subtle misbehaviour '
                  'surfaces only through the API of this property for particular values. (3) Behaviour for values at the edge of the documented domain of this property '
                  '(the largest sizes/widths/indices the statement mentions, zero, one, exactly-equal operands, exact multiples). '
                  'As before: no artificial magic constants; small, plausible diffs.')

text = f"""You are helping to evaluate a verification effort by producing a realistic, subtle bug ("seeded change") in a Rust library. Work ONLY inside the git worktree at {wt} (a checkout of the embedded-graphics repository: a no_std 2D graphics library; workspace = root crate `embedded-graphics` in ./src plus `embedded-graphics-core` in ./core). Do not read or touch /repo or /verif. The machine is offline: use `cargo ... --offline` only; nothing can be downloaded.

The property the library is supposed to satisfy:

{pid}: {prop['title']}

Statement: {prop['statement']}

Quantified over: {prop['quantifier']['text']}
{extra}

Your task: produce TWO different, independent changes (call them A and B) to the library source (under src/ or core/src/, not tests) such that EACH of them:
 1. still compiles, and the repository's existing test suite still passes with it: run `cd {wt} && cargo nextest run --workspace --no-fail-fast --offline` (fallback: `cargo test --workspace --no-fail-fast --offline`) and also `cargo test --workspace --doc --offline`; all tests must pass (560 unit tests). If a test fails, the change is not acceptable: pick a different one.
 2. breaks the property above (makes the library violate the stated behaviour for at least one concrete input / history),
 3. needs something SPECIFIC to manifest: a particular multi-step sequence of operations, an unusual input (a particular size, parity, sign, alignment, threshold, data order, nesting...), a fault at a particular point, or two cooperating sites that each look fine alone. It must NOT be something ordinary use would expose at once (e.g. do not break every circle; break e.g. only rows where some counter crosses a boundary). Prefer realistic slips a maintainer could make (off-by-one in a cursor/offset, wrong branch for a parity, a dropped `?`, saturating vs wrapping, a swapped min/max, a stale cached value, an optimisation that is wrong for a corner case) over artificial `if x == 12345` conditions; small diffs (1-10 lines).
 4. comes with a demonstration: a small Rust integration test file (to be placed in {wt}/tests/, using only the public API of embedded-graphics, e.g. MockDisplay or your own DrawTarget) that FAILS with the change and PASSES without it. Verify both directions yourself (run it with the change applied and with the change reverted).

Make the two changes in different files/mechanisms if possible. Work on one at a time: apply change A, run the suite, write and run the demo, save artefacts, then `git checkout -- src core` (keep your demo test files elsewhere) and do the same for B.

Save the results in {out}/ (create it):
  A.patch.diff  – output of `git diff -- src core` for change A only (must apply with `git apply` to a clean checkout)
  A.demo.rs     – the demonstration test file for A
  A.notes.md    – 5-15 lines: what the change is, why it breaks the property, what exactly is needed for it to manifest, the exact commands you ran and their results (suite pass count with the change; demo fails with / passes without)
  B.patch.diff, B.demo.rs, B.notes.md likewise.
At the end leave the worktree clean of source changes (`git checkout -- src core`; remove your files from tests/) and delete the build output: `rm -rf {wt}/target`.
Reply with a short summary of A and B (files changed, what is needed to manifest). If you could only produce one acceptable change, say so.
"""
open(f'/tmp/seeded-out/{tag}.prompt.txt', 'w').write(text)
print(f'/tmp/seeded-out/{tag}.prompt.txt', len(text), 'bytes,', len(earlier), 'earlier changes listed')
