//! A draw target that consumes the iterators the library hands it in different legal ways.
//!
//! `points()`/`pixels()` can be cloned and probed directly (`fw::iter_protocol`); the iterators a target receives in
//! `draw_iter` and `fill_contiguous` (adapter wrappers, the colour streams of images and glyphs) cannot.  They are
//! probed by drawing the same drawable several times, each time on a target that consumes in another way, and
//! comparing what each way delivered with what plain `next()` delivered (index by index, call by call).

use crate::fw::Obs;
use crate::targets::{rect, rt, BIG_BOX};
use embedded_graphics::{
    draw_target::{DrawTarget, DrawTargetExt},
    geometry::{Dimensions, Point},
    pixelcolor::PixelColor,
    primitives::Rectangle,
    Drawable, Pixel,
};

/// the ways of consuming an iterator
pub const MODES: [(&str, u8); 7] = [
    ("a next() loop", 0),
    ("an nth(0) loop", 1),
    ("by_ref().take(3).for_each, then for_each", 2),
    ("next() and nth(1) in turns", 3),
    ("size_hint() and count()", 4),
    ("last()", 5),
    ("skip(2).step_by(3)", 6),
];

const BUDGET: usize = 1 << 21;

/// what one way of consuming delivered: (index in the stream, item) pairs, the initial size_hint, and the total
/// number of items where the way of consuming determines it
#[derive(Clone, Debug, PartialEq)]
pub struct Seen<T> {
    pub items: Vec<(usize, T)>,
    pub hint: (usize, Option<usize>),
    pub total: Option<usize>,
}

fn consume<T, I: Iterator<Item = T>>(mode: u8, mut it: I) -> Seen<T> {
    let hint = it.size_hint();
    let mut items = vec![];
    let mut total = None;
    match mode {
        0 => {
            while let Some(x) = it.next() {
                items.push((items.len(), x));
                assert!(items.len() <= BUDGET, "harness: endless stream");
            }
            total = Some(items.len());
        }
        1 => {
            while let Some(x) = it.nth(0) {
                items.push((items.len(), x));
                assert!(items.len() <= BUDGET, "harness: endless stream");
            }
            total = Some(items.len());
        }
        2 => {
            it.by_ref().take(3).for_each(|x| items.push((items.len(), x)));
            it.for_each(|x| {
                items.push((items.len(), x));
                assert!(items.len() <= BUDGET, "harness: endless stream");
            });
            total = Some(items.len());
        }
        3 => {
            let mut i = 0usize;
            loop {
                match it.next() {
                    Some(x) => items.push((i, x)),
                    None => break,
                }
                // nth(1) skips item i+1 and yields item i+2
                match it.nth(1) {
                    Some(x) => items.push((i + 2, x)),
                    None => break,
                }
                i += 3;
                assert!(i <= BUDGET, "harness: endless stream");
            }
        }
        4 => {
            total = Some(it.count());
        }
        5 => {
            // (the index of the last item is not known to this consumer: usize::MAX marks "the last one")
            if let Some(x) = it.last() {
                items.push((usize::MAX, x));
            }
        }
        _ => {
            for (k, x) in it.skip(2).step_by(3).enumerate() {
                items.push((2 + 3 * k, x));
                assert!(k <= BUDGET, "harness: endless stream");
            }
        }
    }
    Seen { items, hint, total }
}

#[derive(Clone, Debug, PartialEq)]
pub enum PCall<C> {
    Iter(Seen<((i32, i32), C)>),
    Contig((i32, i32, u32, u32), Seen<C>),
    Solid((i32, i32, u32, u32), C),
    Clear(C),
}

/// native target (all four methods) that consumes iterators in the way `mode` says and logs what it saw
pub struct ProtoTarget<C> {
    pub mode: u8,
    pub bbox: Rectangle,
    pub calls: Vec<PCall<C>>,
}
impl<C> ProtoTarget<C> {
    pub fn new(mode: u8) -> Self {
        ProtoTarget { mode, bbox: rect(BIG_BOX.0, BIG_BOX.1, BIG_BOX.2, BIG_BOX.3), calls: vec![] }
    }
    pub fn with_box(mode: u8, bbox: Rectangle) -> Self {
        ProtoTarget { mode, bbox, calls: vec![] }
    }
}
impl<C> Dimensions for ProtoTarget<C> {
    fn bounding_box(&self) -> Rectangle {
        self.bbox
    }
}
impl<C: PixelColor> DrawTarget for ProtoTarget<C> {
    type Color = C;
    type Error = core::convert::Infallible;
    fn draw_iter<I: IntoIterator<Item = Pixel<C>>>(&mut self, px: I) -> Result<(), Self::Error> {
        // (the iterator is consumed as handed over: an adapter such as `map` in between would hide its `nth`)
        let s = consume(self.mode, px.into_iter());
        let s = Seen { items: s.items.into_iter().map(|(i, Pixel(p, c))| (i, ((p.x, p.y), c))).collect(), hint: s.hint, total: s.total };
        self.calls.push(PCall::Iter(s));
        Ok(())
    }
    fn fill_contiguous<I: IntoIterator<Item = C>>(&mut self, area: &Rectangle, colors: I) -> Result<(), Self::Error> {
        let s = consume(self.mode, colors.into_iter());
        self.calls.push(PCall::Contig(rt(area), s));
        Ok(())
    }
    fn fill_solid(&mut self, area: &Rectangle, color: C) -> Result<(), Self::Error> {
        self.calls.push(PCall::Solid(rt(area), color));
        Ok(())
    }
    fn clear(&mut self, color: C) -> Result<(), Self::Error> {
        self.calls.push(PCall::Clear(color));
        Ok(())
    }
}

fn compare<T: PartialEq + core::fmt::Debug>(what: &str, way: &str, mode: u8, reference: &Seen<T>, got: &Seen<T>, obs: &mut Obs) -> bool {
    let n = reference.items.len();
    let (lo, hi) = got.hint;
    if lo > n || hi.is_some_and(|h| h < n) {
        obs.fail("target-may-consume-iterators-in-any-way", format!("{what}: size_hint() = ({lo}, {hi:?}) but next() delivers {n} items"));
        return false;
    }
    if let Some(t) = got.total {
        if t != n {
            obs.fail("target-may-consume-iterators-in-any-way", format!("{what}: {way} delivers {t} items, a next() loop {n}"));
            return false;
        }
    }
    if let Some(ix) = expected_indices(mode, n) {
        let seen: Vec<usize> = got.items.iter().map(|(i, _)| *i).collect();
        if seen != ix {
            obs.fail("target-may-consume-iterators-in-any-way", format!("{what}: {way} delivers {} items of a stream of {n}, expected {}", seen.len(), ix.len()));
            return false;
        }
    }
    for (i, x) in &got.items {
        let want = if *i == usize::MAX { reference.items.last().map(|r| &r.1) } else { reference.items.get(*i).map(|r| &r.1) };
        if want != Some(x) {
            obs.fail("target-may-consume-iterators-in-any-way", format!("{what}: {way} delivers {:?} as item {}, a next() loop {:?}", x, if *i == usize::MAX { "last".to_string() } else { i.to_string() }, want));
            return false;
        }
    }
    true
}

/// the stream indices a way of consuming must see for a stream of n items (None: all of them / not applicable)
fn expected_indices(mode: u8, n: usize) -> Option<Vec<usize>> {
    match mode {
        3 => {
            let mut v = vec![];
            let mut i = 0;
            loop {
                if i >= n {
                    break;
                }
                v.push(i);
                if i + 2 >= n {
                    break;
                }
                v.push(i + 2);
                i += 3;
            }
            Some(v)
        }
        5 => Some(if n > 0 { vec![usize::MAX] } else { vec![] }),
        6 => Some((2..n).step_by(3).collect()),
        _ => None,
    }
}

/// Draws `d` on targets that consume in every way of `MODES` (directly and behind the library's translated, clipped
/// and cropped adapters) and compares each with the next() loop.
pub fn consumption_protocol<D>(name: &str, d: &D, obs: &mut Obs)
where
    D: Drawable,
    D::Color: PixelColor + core::fmt::Debug,
{
    let bb_hint = rect(-6, -7, 40, 30);
    for stack in 0..4u8 {
        let run = |mode: u8| -> Vec<PCall<D::Color>> {
            let mut t = ProtoTarget::<D::Color>::new(mode);
            let _ = match stack {
                0 => d.draw(&mut t).map(|_| ()),
                1 => d.draw(&mut t.translated(Point::new(3, -2))).map(|_| ()),
                2 => d.draw(&mut t.clipped(&bb_hint)).map(|_| ()),
                _ => d.draw(&mut t.cropped(&bb_hint)).map(|_| ()),
            };
            t.calls
        };
        let reference = run(0);
        obs.class("consumption-protocol");
        let stack_name = ["directly", "behind translated()", "behind clipped()", "behind cropped()"][stack as usize];
        for (way, mode) in MODES.iter().skip(1) {
            let got = run(*mode);
            if !compare_runs(&format!("{name} {stack_name}"), &reference, &got, way, *mode, obs) {
                break;
            }
        }
    }
}

/// compares the calls a target saw when it consumed in way `mode` with the calls of the next() loop
pub fn compare_runs<C: PartialEq + core::fmt::Debug>(name: &str, reference: &[PCall<C>], got: &[PCall<C>], way: &str, mode: u8, obs: &mut Obs) -> bool {
    if got.len() != reference.len() {
        obs.fail("target-may-consume-iterators-in-any-way", format!("{name}: {} calls when the target consumes with {way}, {} with a next() loop", got.len(), reference.len()));
        return false;
    }
    for (k, (r, g)) in reference.iter().zip(got.iter()).enumerate() {
        let what = format!("{name}, call {k}");
        let before = obs.violations.len();
        let ok = match (r, g) {
            (PCall::Iter(a), PCall::Iter(b)) => compare(&what, way, mode, a, b, obs),
            (PCall::Contig(ra, a), PCall::Contig(rb, b)) if ra == rb => compare(&what, way, mode, a, b, obs),
            (PCall::Solid(..), PCall::Solid(..)) | (PCall::Clear(_), PCall::Clear(_)) => r == g,
            _ => false,
        };
        if !ok {
            if obs.violations.len() == before {
                obs.fail("target-may-consume-iterators-in-any-way", format!("{what}: another call when the target consumes with {way}: {:?} instead of {:?}", short(g), short(r)));
            }
            return false;
        }
    }
    true
}

fn short<C: core::fmt::Debug>(c: &PCall<C>) -> String {
    let s = format!("{:?}", c);
    s.chars().take(160).collect()
}
