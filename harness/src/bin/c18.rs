//! C18 Curved primitives match their mathematical shapes and each other
use egverif::catalog::*;
use egverif::fw::*;
use embedded_graphics::prelude::*;
use embedded_graphics::primitives::*;
use serde::{Deserialize, Serialize};
use std::collections::{BTreeMap, BTreeSet};

type Pts = BTreeSet<(i32, i32)>;
const SLACK: f64 = 1e-6;

fn set<I: Iterator<Item = Point>>(i: I) -> Pts {
    i.take(5_000_000).map(|p| (p.x, p.y)).collect()
}

/// second position: above and left of the origin (TL is left of the origin and below it)
const TL2: (i32, i32) = (-7, -9);

/// the points a fill-only style paints through draw() on an unbounded draw_iter-only target
fn drawn_fill<P>(p: &P) -> Pts
where
    P: Primitive + Copy,
    Styled<P, PrimitiveStyle<embedded_graphics::pixelcolor::BinaryColor>>: Drawable<Color = embedded_graphics::pixelcolor::BinaryColor>,
{
    let mut t = egverif::targets::RecD::<embedded_graphics::pixelcolor::BinaryColor>::new();
    let _ = p.into_styled(PrimitiveStyle::with_fill(embedded_graphics::pixelcolor::BinaryColor::On)).draw(&mut t);
    t.map.keys().copied().collect()
}

/// third position: right of and below the origin; the shape is painted (fill only) into a display window with a positive
/// top-left corner that cuts off its first row and column, ends on its last row and reaches one column beyond it:
/// inside the window exactly the shape's points are painted (flavour by flavour)
const TL3: (i32, i32) = (5, 4);
fn window_fill<P>(name: &str, p: &P, w: u32, h: u32, obs: &mut Obs)
where
    P: Primitive + Copy + PointsIter,
    Styled<P, PrimitiveStyle<embedded_graphics::pixelcolor::BinaryColor>>: Drawable<Color = embedded_graphics::pixelcolor::BinaryColor>,
{
    if w < 2 || h < 2 || w > 130 || h > 130 {
        return;
    }
    use embedded_graphics::pixelcolor::BinaryColor;
    let win = Rectangle::new(Point::new(TL3.0 + 1, TL3.1 + 1), Size::new(w, h - 1));
    let want: Pts = p.points().filter(|q| win.contains(*q)).map(|q| (q.x, q.y)).collect();
    let st = p.into_styled(PrimitiveStyle::with_fill(BinaryColor::On));
    let mut a = egverif::targets::RecD::<BinaryColor>::with_box(win);
    let _ = st.draw(&mut a);
    let mut b = egverif::targets::RecN::<BinaryColor>::with_box(win);
    let _ = st.draw(&mut b);
    obs.class("filled-into-a-display-window");
    for (flavour, m) in [("draw_iter-only", &a.map), ("native", &b.map)] {
        let got: Pts = m.keys().filter(|k| win.contains(Point::new(k.0, k.1))).copied().collect();
        if got != want {
            obs.fail("filled-shape-paints-its-points", format!("{name} at {:?} into the {flavour} window {:?}: {} points painted inside, points() has {} there; first difference {:?}", TL3, (win.top_left.x, win.top_left.y, win.size.width, win.size.height), got.len(), want.len(), got.symmetric_difference(&want).next()));
        }
    }
}

/// `at_tl2` (a shape built at TL2, as points() and as painted by a fill-only style) must be `at_tl` moved by TL2 - TL
fn same_elsewhere(name: &str, at_tl: &Pts, points_at_tl2: Pts, drawn_at_tl2: Option<Pts>, obs: &mut Obs) {
    let (dx, dy) = (TL2.0 - TL.0, TL2.1 - TL.1);
    let moved: Pts = at_tl.iter().map(|(x, y)| (x + dx, y + dy)).collect();
    obs.class("second-position-above-the-origin");
    if points_at_tl2 != moved {
        obs.fail("same-curve-at-another-position", format!("{name}: points() at {:?} has {} points, at {:?} {} points; first difference {:?}", TL, at_tl.len(), TL2, points_at_tl2.len(), points_at_tl2.symmetric_difference(&moved).next()));
    }
    if let Some(d) = drawn_at_tl2 {
        if d != moved {
            obs.fail("filled-shape-paints-its-points", format!("{name} at {:?}: a fill-only style paints {} points, points() has {}; first difference {:?}", TL2, d.len(), moved.len(), d.symmetric_difference(&moved).next()));
        }
    }
}

/// every row and every column is one contiguous run
fn runs_ok(s: &Pts) -> bool {
    let mut rows: BTreeMap<i32, Vec<i32>> = BTreeMap::new();
    let mut cols: BTreeMap<i32, Vec<i32>> = BTreeMap::new();
    for (x, y) in s {
        rows.entry(*y).or_default().push(*x);
        cols.entry(*x).or_default().push(*y);
    }
    rows.values_mut().chain(cols.values_mut()).all(|v| {
        v.sort();
        v.windows(2).all(|w| w[1] == w[0] + 1)
    })
}

// --- Eberly's robust point-to-ellipse distance -------------------------------------------------
fn get_root(r0: f64, z0: f64, z1: f64, g: f64) -> f64 {
    let n0 = r0 * z0;
    let mut s0 = z1 - 1.0;
    let mut s1 = if g < 0.0 { 0.0 } else { n0.hypot(z1) - 1.0 };
    let mut s = 0.0;
    for _ in 0..1100 {
        s = (s0 + s1) / 2.0;
        if s == s0 || s == s1 {
            break;
        }
        let ratio0 = n0 / (s + r0);
        let ratio1 = z1 / (s + 1.0);
        let g = ratio0 * ratio0 + ratio1 * ratio1 - 1.0;
        if g > 0.0 {
            s0 = s;
        } else if g < 0.0 {
            s1 = s;
        } else {
            break;
        }
    }
    s
}
/// distance from (px, py) to the curve (x/a)^2 + (y/b)^2 = 1 (a, b > 0)
fn dist_point_ellipse(a: f64, b: f64, px: f64, py: f64) -> f64 {
    let (px, py) = (px.abs(), py.abs());
    let (e0, e1, y0, y1) = if a >= b { (a, b, px, py) } else { (b, a, py, px) };
    if y1 > 0.0 {
        if y0 > 0.0 {
            let (z0, z1) = (y0 / e0, y1 / e1);
            let g = z0 * z0 + z1 * z1 - 1.0;
            if g != 0.0 {
                let r0 = (e0 / e1) * (e0 / e1);
                let sbar = get_root(r0, z0, z1, g);
                let x0 = r0 * y0 / (sbar + r0);
                let x1 = y1 / (sbar + 1.0);
                (x0 - y0).hypot(x1 - y1)
            } else {
                0.0
            }
        } else {
            (y1 - e1).abs()
        }
    } else {
        let numer0 = e0 * y0;
        let denom0 = e0 * e0 - e1 * e1;
        if numer0 < denom0 {
            let xde0 = numer0 / denom0;
            let x0 = e0 * xde0;
            let x1 = e1 * (1.0 - xde0 * xde0).max(0.0).sqrt();
            (x0 - y0).hypot(x1)
        } else {
            (y0 - e0).abs()
        }
    }
}

#[derive(Clone, Debug, PartialEq, Eq, Hash, Serialize, Deserialize)]
enum Case {
    Circle { d: u32 },
    Ellipse { w: u32, h: u32 },
    RRect { w: u32, h: u32, tl: (u32, u32), tr: (u32, u32), br: (u32, u32), bl: (u32, u32) },
    /// sector and arc; angles in quarter degrees
    Angle { d: u32, start: i32, sweep: i32 },
    /// sector and arc; angles in hundredths of a degree (sweeps just below 360, 180 and above 0)
    AngleC { d: u32, start: i32, sweep: i32 },
}

const TL: (i32, i32) = (-4, 3);

/// band check for an axis-aligned ellipse with doubled-coordinate centre (cx2, cy2) and size (w, h);
/// `region`: only points for which region(x, y) is true are judged
fn ellipse_band(got: &Pts, x0: i32, y0: i32, w: u32, h: u32, obs: &mut Obs, clause: &str) {
    let (cx2, cy2) = (2 * x0 as i64 + w as i64 - 1, 2 * y0 as i64 + h as i64 - 1);
    let (a, b) = (w as f64 / 2.0, h as f64 / 2.0);
    for y in y0 - 2..y0 + h as i32 + 2 {
        for x in x0 - 2..x0 + w as i32 + 2 {
            let (xx, yy) = (2 * x as i64 - cx2, 2 * y as i64 - cy2);
            // exact: (X/w)^2 + (Y/h)^2 < 1 in doubled coordinates
            let ideal = w > 0 && h > 0 && (xx * xx) as i128 * (h as i128 * h as i128) + (yy * yy) as i128 * (w as i128 * w as i128) < (w as i128 * w as i128) * (h as i128 * h as i128);
            let g = got.contains(&(x, y));
            if ideal != g {
                let dist = if w == 0 || h == 0 { f64::INFINITY } else { dist_point_ellipse(a, b, xx as f64 / 2.0, yy as f64 / 2.0) };
                obs.max("max_band_deviation_milli_px", (dist.min(1000.0) * 1000.0) as u64);
                if dist > 0.5 + SLACK {
                    obs.fail(clause, format!("point ({x},{y}) is {} although its centre is {} the ideal curve by {:.3} px", if g { "included" } else { "excluded" }, if ideal { "inside" } else { "outside" }, dist));
                    return;
                }
            }
        }
    }
}

fn check_circle(d: u32, obs: &mut Obs) {
    let tl = Point::new(TL.0, TL.1);
    let circle = Circle::new(tl, d);
    let c = set(circle.points());
    if d <= 12 {
        iter_protocol("Circle::points()", 200, || circle.points(), obs);
    }
    if d <= 130 {
        let c2 = Circle::new(Point::new(TL2.0, TL2.1), d);
        same_elsewhere("circle", &c, set(c2.points()), Some(drawn_fill(&c2)), obs);
        window_fill("circle", &Circle::new(Point::new(TL3.0, TL3.1), d), d, d, obs);
    }
    obs.outcome(&c);
    obs.nontrivial_if(!c.is_empty());
    obs.class("circle");
    ellipse_band(&c, TL.0, TL.1, d, d, obs, "circle-matches-ideal-within-half-a-pixel");
    // symmetry about both centre lines
    let (sx, sy) = (2 * TL.0 + d as i32 - 1, 2 * TL.1 + d as i32 - 1);
    if !c.iter().all(|(x, y)| c.contains(&(sx - x, *y)) && c.contains(&(*x, sy - y))) {
        obs.fail("circle-mirror-symmetric", String::new());
    }
    if !runs_ok(&c) {
        obs.fail("rows-and-columns-are-single-runs", "circle");
    }
    if d > 0 {
        let xs: Vec<i32> = c.iter().map(|p| p.0).collect();
        let ys: Vec<i32> = c.iter().map(|p| p.1).collect();
        let b = (xs.iter().min().copied(), xs.iter().max().copied(), ys.iter().min().copied(), ys.iter().max().copied());
        if b != (Some(TL.0), Some(TL.0 + d as i32 - 1), Some(TL.1), Some(TL.1 + d as i32 - 1)) {
            obs.fail("circle-touches-all-four-sides", format!("extent {:?}", b));
        }
    }
    // equivalent descriptions
    if c != set(Ellipse::new(tl, Size::new(d, d)).points()) {
        obs.fail("circle==ellipse-with-equal-axes", String::new());
    }
    let ring: Pts = c.difference(&set(circle.offset(-1).points())).copied().collect();
    // the same equivalences for shapes described by their centre and for sectors/arcs derived from a circle
    if d <= 130 {
        obs.class("described-by-centre");
        for ctr in [(0, 0), (-3, -5), (6, -2), (-1, 9)] {
            let cp = Point::new(ctr.0, ctr.1);
            let cc = Circle::with_center(cp, d);
            let ccp = set(cc.points());
            if ccp != set(Ellipse::with_center(cp, Size::new(d, d)).points()) {
                obs.fail("circle==ellipse-with-equal-axes", format!("both described by the centre {:?}", ctr));
            }
            let cring: Pts = ccp.difference(&set(cc.offset(-1).points())).copied().collect();
            for (st, sw) in [(0.0f32, 360.0f32), (123.0, -360.0), (-45.0, 540.0)] {
                if set(Sector::with_center(cp, d, st.deg(), sw.deg()).points()) != ccp || set(Sector::from_circle(cc, st.deg(), sw.deg()).points()) != ccp {
                    obs.fail("sector-sweeping-360-or-more==circle", format!("sector described by the centre {:?} / derived from the circle, start {st} sweep {sw}", ctr));
                }
                if set(Arc::with_center(cp, d, st.deg(), sw.deg()).points()) != cring || set(Arc::from_circle(cc, st.deg(), sw.deg()).points()) != cring {
                    obs.fail("arc-sweeping-360-or-more==one-pixel-ring", format!("arc described by the centre {:?} / derived from the circle, start {st} sweep {sw}", ctr));
                }
            }
            // a partial sector / arc lies in the circle it was derived from, in the circle with the same centre and in the circle it reports
            for (st, sw) in [(10.0f32, 100.0f32), (200.0, -250.0)] {
                let (s1, s2) = (Sector::with_center(cp, d, st.deg(), sw.deg()), Sector::from_circle(cc, st.deg(), sw.deg()));
                let (a1, a2) = (Arc::with_center(cp, d, st.deg(), sw.deg()), Arc::from_circle(cc, st.deg(), sw.deg()));
                let s1c = set(s1.to_circle().points());
                let a1c = set(a1.to_circle().points());
                if !set(s1.points()).is_subset(&ccp) || !set(s2.points()).is_subset(&ccp) || !set(s1.points()).is_subset(&s1c) {
                    obs.fail("sector-points-lie-in-the-circle", format!("sector described by the centre {:?} / derived from the circle, start {st} sweep {sw}", ctr));
                }
                if !set(a1.points()).is_subset(&ccp) || !set(a2.points()).is_subset(&ccp) || !set(a1.points()).is_subset(&a1c) {
                    obs.fail("arc-points-lie-in-the-circle", format!("arc described by the centre {:?} / derived from the circle, start {st} sweep {sw}", ctr));
                }
                if set(s1.points()) != set(s2.points()) || set(a1.points()) != set(a2.points()) {
                    obs.fail("same-curve-by-another-description", format!("sector/arc with centre {:?}: described by the centre vs derived from the circle with that centre, start {st} sweep {sw}", ctr));
                }
            }
        }
    }
    for sw in [360.0f32, -360.0, 360.25, 400.0, -719.0, 720.0] {
        for st in [0.0f32, 33.0, -90.0, 271.5] {
            if set(Sector::new(tl, d, st.deg(), sw.deg()).points()) != c {
                obs.fail("sector-sweeping-360-or-more==circle", format!("start {st} sweep {sw}"));
            }
            if set(Arc::new(tl, d, st.deg(), sw.deg()).points()) != ring {
                obs.fail("arc-sweeping-360-or-more==one-pixel-ring", format!("start {st} sweep {sw}"));
            }
        }
    }
}

fn check_ellipse(w: u32, h: u32, obs: &mut Obs) {
    let tl = Point::new(TL.0, TL.1);
    let e = set(Ellipse::new(tl, Size::new(w, h)).points());
    if w <= 10 && h <= 10 {
        iter_protocol("Ellipse::points()", 120, || Ellipse::new(tl, Size::new(w, h)).points(), obs);
    }
    if w <= 130 && h <= 130 {
        let e2 = Ellipse::new(Point::new(TL2.0, TL2.1), Size::new(w, h));
        same_elsewhere("ellipse", &e, set(e2.points()), Some(drawn_fill(&e2)), obs);
        window_fill("ellipse", &Ellipse::new(Point::new(TL3.0, TL3.1), Size::new(w, h)), w, h, obs);
    }
    obs.outcome(&e);
    obs.nontrivial_if(!e.is_empty());
    obs.class("ellipse");
    obs.class_if(w.min(h) > 0 && w.min(h) <= 2 && w.max(h) >= 8, "thin-ellipse");
    ellipse_band(&e, TL.0, TL.1, w, h, obs, "ellipse-matches-ideal-within-half-a-pixel");
    let (sx, sy) = (2 * TL.0 + w as i32 - 1, 2 * TL.1 + h as i32 - 1);
    if !e.iter().all(|(x, y)| e.contains(&(sx - x, *y)) && e.contains(&(*x, sy - y))) {
        obs.fail("ellipse-mirror-symmetric", String::new());
    }
    if !runs_ok(&e) {
        obs.fail("rows-and-columns-are-single-runs", "ellipse");
    }
    // rounded rectangle equivalences
    let r = Rectangle::new(tl, Size::new(w, h));
    if set(RoundedRectangle::with_equal_corners(r, Size::zero()).points()) != set(r.points()) {
        obs.fail("rounded-rectangle-with-zero-radii==rectangle", String::new());
    }
    if w % 2 == 0 && h % 2 == 0 {
        obs.class("even-sides");
        let rr = set(RoundedRectangle::with_equal_corners(r, Size::new(w / 2, h / 2)).points());
        if rr != e {
            obs.fail("rounded-rectangle-with-half-side-radii==ellipse", format!("{} vs {} points", rr.len(), e.len()));
        }
    }
}

fn check_rrect(c: &Case, obs: &mut Obs) {
    let Case::RRect { w, h, tl, tr, br, bl } = c else { unreachable!() };
    let rr = mk_rrect(TL.0, TL.1, *w, *h, *tl, *tr, *br, *bl);
    let got = set(rr.points());
    if got.len() <= 60 {
        iter_protocol("RoundedRectangle::points()", 60, || rr.points(), obs);
    }
    if *w <= 130 && *h <= 130 {
        let rr2 = mk_rrect(TL2.0, TL2.1, *w, *h, *tl, *tr, *br, *bl);
        same_elsewhere("rounded rectangle", &got, set(rr2.points()), Some(drawn_fill(&rr2)), obs);
        window_fill("rounded rectangle", &mk_rrect(TL3.0, TL3.1, *w, *h, *tl, *tr, *br, *bl), *w, *h, obs);
    }
    obs.outcome(&got);
    obs.nontrivial_if(!got.is_empty());
    obs.class("rounded-rectangle");
    // the same corner radii described through the builder: corner by corner in two orders, derived from the
    // finished radii, by sides where two neighbouring corners are equal, and all at once where all four are
    {
        let (stl, str_, sbr, sbl) = (Size::new(tl.0, tl.1), Size::new(tr.0, tr.1), Size::new(br.0, br.1), Size::new(bl.0, bl.1));
        let mut routes = vec![
            ("corner by corner", CornerRadiiBuilder::new().top_left(stl).top_right(str_).bottom_right(sbr).bottom_left(sbl).build()),
            ("corner by corner in reverse order after all()", CornerRadiiBuilder::new().all(Size::new(7, 7)).bottom_left(sbl).bottom_right(sbr).top_right(str_).top_left(stl).build()),
            ("builder derived from the radii", CornerRadiiBuilder::from(&rr.corners).build()),
        ];
        if tl == tr && bl == br {
            routes.push(("top() and bottom()", CornerRadiiBuilder::new().top(stl).bottom(sbl).build()));
            routes.push(("bottom() and top() after all()", CornerRadiiBuilder::new().all(Size::new(9, 1)).bottom(sbl).top(stl).build()));
        }
        if tl == bl && tr == br {
            routes.push(("left() and right()", CornerRadiiBuilder::new().left(stl).right(str_).build()));
            routes.push(("right() and left() after all()", CornerRadiiBuilder::new().all(Size::new(1, 9)).right(str_).left(stl).build()));
        }
        if tl == tr && tr == br && br == bl {
            routes.push(("all()", CornerRadiiBuilder::new().top(Size::new(3, 3)).all(stl).build()));
            routes.push(("CornerRadii::new", CornerRadii::new(stl)));
            routes.push(("with_equal_corners", RoundedRectangle::with_equal_corners(rr.rectangle, stl).corners));
        }
        obs.class("radii-through-the-builder");
        for (name, cr) in routes {
            if cr != rr.corners || (got.len() <= 200 && set(RoundedRectangle::new(rr.rectangle, cr).points()) != got) {
                obs.fail("same-curve-by-another-description", format!("corner radii described through {name}: {:?} instead of {:?}", cr, rr.corners));
            }
        }
    }
    let cf = rr.confine_radii().corners;
    let over = tl.0 + tr.0 > *w || bl.0 + br.0 > *w || tl.1 + bl.1 > *h || tr.1 + br.1 > *h;
    obs.class_if(over, "radii-need-confining");
    obs.class_if(tl != tr || tr != br || br != bl, "unequal-radii");
    if cf.top_left.width + cf.top_right.width > *w || cf.bottom_left.width + cf.bottom_right.width > *w || cf.top_left.height + cf.bottom_left.height > *h || cf.top_right.height + cf.bottom_right.height > *h {
        obs.fail("confined-radii-fit-the-shared-side", format!("{}x{}: confined to {:?}", w, h, cf));
        return;
    }
    if !over && cf != rr.corners {
        obs.fail("confine_radii-keeps-fitting-radii", format!("{:?} -> {:?}", rr.corners, cf));
    }
    if !runs_ok(&got) {
        obs.fail("rows-and-columns-are-single-runs", "rounded rectangle");
    }
    // ideal shape: rectangle whose corners are quadrants of ellipses with the confined radii
    let (x0, y0, x1, y1) = (TL.0, TL.1, TL.0 + *w as i32, TL.1 + *h as i32);
    // (corner box origin, ellipse top-left, radii)
    let corners = [
        ((x0, y0), (x0, y0), cf.top_left),
        ((x1 - cf.top_right.width as i32, y0), (x1 - 2 * cf.top_right.width as i32, y0), cf.top_right),
        ((x1 - cf.bottom_right.width as i32, y1 - cf.bottom_right.height as i32), (x1 - 2 * cf.bottom_right.width as i32, y1 - 2 * cf.bottom_right.height as i32), cf.bottom_right),
        ((x0, y1 - cf.bottom_left.height as i32), (x0, y1 - 2 * cf.bottom_left.height as i32), cf.bottom_left),
    ];
    for y in y0 - 1..y1 + 1 {
        for x in x0 - 1..x1 + 1 {
            let in_rect = x >= x0 && x < x1 && y >= y0 && y < y1;
            let mut ideal = in_rect;
            let mut dist = f64::INFINITY;
            if in_rect {
                for (bo, eo, r) in &corners {
                    let (rw, rh) = (r.width as i32, r.height as i32);
                    if rw > 0 && rh > 0 && x >= bo.0 && x < bo.0 + rw && y >= bo.1 && y < bo.1 + rh {
                        let (cx2, cy2) = (2 * eo.0 as i64 + 2 * rw as i64 - 1, 2 * eo.1 as i64 + 2 * rh as i64 - 1);
                        let (xx, yy) = (2 * x as i64 - cx2, 2 * y as i64 - cy2);
                        let (ew, eh) = (2 * rw as i128, 2 * rh as i128);
                        let inside = (xx * xx) as i128 * eh * eh + (yy * yy) as i128 * ew * ew < ew * ew * eh * eh;
                        if !inside {
                            ideal = false;
                        }
                        dist = dist.min(dist_point_ellipse(rw as f64, rh as f64, xx as f64 / 2.0, yy as f64 / 2.0));
                    }
                }
            }
            let g = got.contains(&(x, y));
            if g != ideal {
                obs.max("max_band_deviation_milli_px", (dist.min(1000.0) * 1000.0) as u64);
                if dist > 0.5 + SLACK {
                    obs.fail("rounded-corner-matches-ideal-within-half-a-pixel", format!("point ({x},{y}) is {} but ideally {}; distance to the corner curve {:.3}", if g { "included" } else { "excluded" }, if ideal { "inside" } else { "outside" }, dist));
                    return;
                }
            }
        }
    }
}

/// distance of the offset (dx, dy) from the centre to the boundary rays of the sweep, and whether it is inside the sweep
fn sweep_dist(dx: f64, dy: f64, start: f64, sweep: f64) -> (bool, f64) {
    if sweep.abs() >= 360.0 {
        return (true, f64::INFINITY);
    }
    let (s, e) = if sweep >= 0.0 { (start, start + sweep) } else { (start + sweep, start) };
    let ang = dy.atan2(dx).to_degrees();
    let rel = (ang - s).rem_euclid(360.0);
    let r = dx.hypot(dy);
    let inside = r == 0.0 || rel <= e - s;
    let ray = |t: f64| -> f64 {
        let (c, sn) = (t.to_radians().cos(), t.to_radians().sin());
        let along = dx * c + dy * sn;
        if along <= 0.0 {
            r
        } else {
            (dx * sn - dy * c).abs()
        }
    };
    (inside, ray(s).min(ray(e)))
}

fn check_angle(d: u32, start: i32, sweep: i32, obs: &mut Obs) {
    check_angle_f(d, start as f64 / 4.0, sweep as f64 / 4.0, start % 4 != 0 || sweep % 4 != 0, obs)
}

fn check_angle_f(d: u32, st: f64, sw: f64, fractional: bool, obs: &mut Obs) {
    let (start, sweep) = ((st * 4.0) as i32, (sw * 4.0) as i32);
    let tl = Point::new(TL.0, TL.1);
    let circle = Circle::new(tl, d);
    let cpts = set(circle.points());
    let ring: Pts = cpts.difference(&set(circle.offset(-1).points())).copied().collect();
    let (cx, cy) = (TL.0 as f64 + (d as f64 - 1.0) / 2.0, TL.1 as f64 + (d as f64 - 1.0) / 2.0);
    let (a0, a1) = (Angle::from_degrees(st as f32), Angle::from_degrees(sw as f32));
    let sp = set(Sector::new(tl, d, a0, a1).points());
    let ap = set(Arc::new(tl, d, a0, a1).points());
    if d <= 8 && (start / 4) % 45 == 0 {
        iter_protocol("Sector::points()", 80, || Sector::new(tl, d, a0, a1).points(), obs);
        iter_protocol("Arc::points()", 80, || Arc::new(tl, d, a0, a1).points(), obs);
    }
    if d <= 33 {
        let tl2 = Point::new(TL2.0, TL2.1);
        let s2 = Sector::new(tl2, d, a0, a1);
        // (a styled sector is rendered with its own threshold rule, so only points() is compared)
        same_elsewhere("sector", &sp, set(s2.points()), None, obs);
        same_elsewhere("arc", &ap, set(Arc::new(tl2, d, a0, a1).points()), None, obs);
        // contains() describes the same point set as points()
        if d <= 10 {
            let s1 = Sector::new(tl, d, a0, a1);
            for y in TL.1 - 1..=TL.1 + d as i32 {
                for x in TL.0 - 1..=TL.0 + d as i32 {
                    if s1.contains(Point::new(x, y)) != sp.contains(&(x, y)) {
                        obs.fail("sector-contains-agrees-with-points", format!("contains(({x},{y})) = {}, in points(): {}", s1.contains(Point::new(x, y)), sp.contains(&(x, y))));
                        break;
                    }
                }
            }
        }
    }
    obs.outcome(&sp);
    obs.outcome(&ap);
    obs.nontrivial_if(!sp.is_empty() || !ap.is_empty());
    obs.class("sector-and-arc");
    obs.class_if(sweep < 0, "negative-sweep");
    obs.class_if(sweep.abs() >= 360 * 4, "sweep>=360");
    obs.class_if(fractional, "fractional-angle");
    obs.class_if(sw.abs() > 359.0 && sw.abs() < 360.0, "sweep-just-below-360");
    obs.class_if(d >= 64, "large-diameter");
    if let Some(q) = sp.iter().find(|q| !cpts.contains(q)) {
        obs.fail("sector-points-lie-in-the-circle", format!("{:?}", q));
    }
    if let Some(q) = ap.iter().find(|q| !cpts.contains(q)) {
        obs.fail("arc-points-lie-in-the-circle", format!("{:?}", q));
    }
    let mut worst = 0f64;
    for p in &cpts {
        let (dx, dy) = (p.0 as f64 - cx, p.1 as f64 - cy);
        let (inside, dist) = sweep_dist(dx, dy, st, sw);
        let in_sector = sp.contains(p);
        if in_sector != inside {
            worst = worst.max(dist);
            if dist > 1.5 + SLACK {
                obs.fail(if in_sector { "sector-points-inside-the-sweep-up-to-1.5px" } else { "sector-includes-circle-points-inside-the-sweep" }, format!("point {:?} is {} the sector, {} the sweep, {:.3} px from the radial boundary", p, if in_sector { "in" } else { "missing from" }, if inside { "inside" } else { "outside" }, dist));
                return;
            }
        }
        let in_arc = ap.contains(p);
        if in_arc && !inside || !in_arc && inside && ring.contains(p) {
            worst = worst.max(dist);
            if dist > 1.5 + SLACK {
                obs.fail(if in_arc { "arc-points-inside-the-sweep-up-to-1.5px" } else { "arc-includes-ring-points-inside-the-sweep" }, format!("point {:?} is {} the arc, {} the sweep, {:.3} px from the radial boundary", p, if in_arc { "in" } else { "missing from" }, if inside { "inside" } else { "outside" }, dist));
                return;
            }
        }
    }
    obs.max("max_angular_boundary_deviation_milli_px", (worst * 1000.0) as u64);
}

fn check(c: &Case, obs: &mut Obs) {
    match c {
        Case::Circle { d } => check_circle(*d, obs),
        Case::Ellipse { w, h } => check_ellipse(*w, *h, obs),
        Case::RRect { .. } => check_rrect(c, obs),
        Case::Angle { d, start, sweep } => check_angle(*d, *start, *sweep, obs),
        Case::AngleC { d, start, sweep } => check_angle_f(*d, *start as f64 / 100.0, *sweep as f64 / 100.0, true, obs),
    }
}

fn shape_cases(tier: Tier) -> Vec<Case> {
    let mut v = vec![];
    for d in 0..=tier.pick(64, 256) {
        v.push(Case::Circle { d });
    }
    let e = tier.pick(32, 96);
    for w in 0..=e {
        for h in 0..=e {
            v.push(Case::Ellipse { w, h });
        }
    }
    // display-scale shapes: the products of the axes pass 2^16 (and their squares 2^32)
    for (w, h) in [(320u32, 240u32), (240, 320), (256, 257), (257, 255), (480, 272), (800, 600), (1024, 1024), (1023, 1024), (1024, 3), (2, 1024), (182, 181)] {
        v.push(Case::Ellipse { w, h });
    }
    for d in [320u32, 511, 1024] {
        v.push(Case::Circle { d });
    }
    for (w, h, r) in [(800u32, 600u32, (300u32, 200u32)), (640, 480, (320, 240)), (1024, 300, (400, 100)), (300, 1024, (129, 511))] {
        v.push(Case::RRect { w, h, tl: r, tr: r, br: r, bl: r });
        v.push(Case::RRect { w, h, tl: r, tr: (r.1, r.0), br: (17, 400), bl: (0, 0) });
    }
    let (ms, mr) = tier.pick((10, 6), (14, 9));
    for w in 0..=ms {
        for h in 0..=ms {
            for rx in 0..=mr {
                for ry in 0..=mr {
                    v.push(Case::RRect { w, h, tl: (rx, ry), tr: (rx, ry), br: (rx, ry), bl: (rx, ry) });
                }
            }
        }
    }
    let alpha: &[(u32, u32)] = if tier.is_thorough() { &[(0, 0), (1, 3), (3, 1), (5, 5), (2, 9), (9, 2), (20, 20), (4, 4)] } else { &[(0, 0), (1, 3), (3, 1), (5, 5), (2, 9), (9, 9)] };
    let sizes: &[(u32, u32)] = if tier.is_thorough() { &[(7, 6), (3, 11), (8, 8), (10, 4), (1, 8), (5, 5), (12, 12), (2, 2), (6, 13), (20, 17)] } else { &[(7, 6), (3, 11), (8, 8), (1, 8), (10, 4), (16, 13)] };
    for &(w, h) in sizes {
        for &tl in alpha {
            for &tr in alpha {
                for &br in alpha {
                    for &bl in alpha {
                        v.push(Case::RRect { w, h, tl, tr, br, bl });
                    }
                }
            }
        }
    }
    v
}

fn angle_cases(tier: Tier) -> Vec<Case> {
    let mut v = vec![];
    let t = tier.is_thorough();
    for d in [1u32, 2, 3, 4, 5, 6, 7, 8, 9, 10, 15, 16, 31, 32, 33, 64, 127, 128] {
        let (st_step, sw_step) = if d <= 10 { (tier.pick(3, 1), tier.pick(3, 1)) } else if d <= 40 { (tier.pick(5, 1), tier.pick(7, 3)) } else { (tier.pick(17, 7), tier.pick(23, 11)) };
        let mut start = 0;
        while start < 360 {
            let mut sweep = -370;
            while sweep <= 370 {
                v.push(Case::Angle { d, start: start * 4, sweep: sweep * 4 });
                sweep += sw_step;
            }
            start += st_step;
        }
        // special angles: zero and tiny sweeps, quadrant boundaries, half and full turns
        for start in [0, 45, 90, 135, 180, 270, 359, -90, -1, 360, 400, 725, -725, 1080] {
            for sweep in [0, 1, -1, 45, 90, -90, 179, 180, 181, -179, -180, -181, 359, 360, -359, -360] {
                v.push(Case::Angle { d, start: start * 4, sweep: sweep * 4 });
            }
            for sweep_q in [1, -1, 2, 3, 721, -719] {
                v.push(Case::Angle { d, start: start * 4, sweep: sweep_q });
                v.push(Case::Angle { d, start: start * 4 + 2, sweep: sweep_q });
            }
        }
        // sweeps a hundredth of a degree around 0, 180 and 360 from every 5th degree and some fractional starts
        if d == 5 || d == 9 || d == 16 || d == 33 || (t && d == 128) {
            let mut starts: Vec<i32> = (0..360).step_by(5).map(|s| s * 100).collect();
            starts.extend([2050, 4567, 13333, 27001, 35999]);
            for start in starts {
                for sweep in [35999, -35999, 35995, -35995, 35950, 1, -1, 5, -5, 17999, 18001, -17999, -18001] {
                    v.push(Case::AngleC { d, start, sweep });
                }
            }
        }
        // fractional angles k/4 degree
        if d <= 33 || t {
            for start_q in (1..1440).step_by(if t { 37 } else { 113 }) {
                for sweep_q in (-1477..1480).step_by(if t { 61 } else { 211 }) {
                    v.push(Case::Angle { d, start: start_q, sweep: sweep_q });
                }
            }
        }
    }
    v
}

fn run_part(run: &mut Run) {
    let tier = run.tier;
    match run.part.as_str() {
        "shapes" => run.sweep_vec("shapes", "circles d in 0..=64 (thorough 256), ellipses w,h in 0..=32 (96), rounded rectangles w,h in 0..=10 (14) x equal radii 0..=6^2 (9^2) and products of unequal radii on listed sizes, plus 11 ellipses, 3 circles and 8 rounded rectangles at display scale (axes up to 1024)", || shape_cases(tier), check),
        "angles" | "angles-fixed-point" => run.sweep_vec("angles", "sectors and arcs: diameters {1..=10,15,16,31,32,33,64,127,128} x start x sweep -370..=370 on degree grids (step 3/5-7/17-23 quick, 1/1-3/7-11 thorough) plus fractional angles in quarter degrees", || angle_cases(tier), check),
        p => panic!("unknown part {p}"),
    }
}

fn main() {
    egverif::fw::main(Prop {
        id: "C18",
        level: "exploration",
        rule: "every shape / (diameter, start, sweep) of the listed finite grids once, the angle part in the floating-point and in the fixed_point build; non-trivial = the shape has points; the ideal curve is tested exactly in doubled integer coordinates, a misclassified point is a violation only if its Euclidean distance to the ideal curve (Eberly's robust point-to-ellipse distance) exceeds 0.5 px (+1e-6); symmetry, single runs per row/column, touching the box, the equivalences of the statement, confined radii sums; arcs/sectors: subset of the circle, inside the sweep or within 1.5 px of a radial boundary ray, every circle (arc: ring) point inside the sweep farther than 1.5 px from both rays included",
        assumptions: &["angles follow the library's convention: direction (cos t, sin t) with y down, positive sweep clockwise on screen", "f64 distances with 1e-6 slack in favour of the code; observed maxima are reported in the counters"],
        parts: |_| vec![PartSpec::new("shapes", "verif"), PartSpec::new("angles", "verif"), PartSpec::new("angles-fixed-point", "verif_fp")],
        run_part,
        required_classes: |_| vec!["circle", "filled-into-a-display-window", "described-by-centre", "ellipse", "thin-ellipse", "even-sides", "rounded-rectangle", "radii-through-the-builder", "radii-need-confining", "unequal-radii", "sector-and-arc", "negative-sweep", "sweep>=360", "fractional-angle", "large-diameter", "sweep-just-below-360"],
        crash_is_verdict: false,
    })
}
