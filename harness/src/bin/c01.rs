//! C01 One image per drawable, whichever drawing path the target offers
use egverif::catalog::*;
use egverif::fw::*;
use egverif::imgs::*;
use egverif::targets::*;
use egverif::texts::*;
use egverif::{with_image, with_styled};
use embedded_graphics::image::{Image, ImageDrawable};
use embedded_graphics::pixelcolor::{BinaryColor, Gray8, Rgb565};
use embedded_graphics::prelude::*;
use serde::{Deserialize, Serialize};

fn check_prim<C: TestColor>(case: &Styled2, obs: &mut Obs) {
    let sty = case.sty;
    with_styled!(&case.shape, sty.build::<C>(), C, |s| {
        let mut a = RecD::<C>::new();
        s.draw(&mut a).unwrap();
        let mut b = RecN::<C>::new();
        s.draw(&mut b).unwrap();
        let mut c = RecD::<C>::new();
        c.draw_iter(s.pixels()).unwrap();
        obs.outcome(&a.map);
        obs.nontrivial_if(!a.map.is_empty() || !b.map.is_empty() || !c.map.is_empty());
        obs.class(case.shape.kind());
        obs.class_if(sty.fill && !(sty.stroke && sty.w > 0), "fill-only");
        obs.class_if(!sty.fill && sty.stroke && sty.w > 0, "stroke-only");
        obs.class_if(sty.fill && sty.stroke && sty.w > 0, "fill+stroke");
        obs.class_if(!sty.stroke && sty.w > 0, "stroke-colour-absent-width>0");
        obs.class_if(sty.w == 0, "width-0");
        obs.class_if(!a.map.is_empty() && a.map.keys().all(|k| k.0 < 0 && k.1 < 0), "fully-negative");
        obs.class_if(b.ncalls > 0 && a.ncalls > 0, "both-targets-called");
        if a.map != b.map {
            obs.fail("draw-default==draw-native", format!("a=draw_iter-only target, b=native target: {}", map_diff(&a.map, &b.map)));
        }
        if a.map != c.map {
            obs.fail("draw==pixels", format!("a=draw(), b=pixels(): {}", map_diff(&a.map, &c.map)));
        }
        // every way of consuming pixels() delivers what next() delivers (small shapes, thin strokes)
        if sty.w <= 1 && c.map.len() <= 40 {
            iter_protocol("pixels()", 200, || s.pixels(), obs);
        }
        // the same drawable through the other public entry points: Styled::new and StyledDrawable::draw_styled
        let s2 = embedded_graphics::primitives::Styled::new(s.primitive.clone(), s.style);
        let mut d = RecD::<C>::new();
        s2.draw(&mut d).unwrap();
        let mut e = RecN::<C>::new();
        embedded_graphics::primitives::StyledDrawable::draw_styled(&s.primitive, &s.style, &mut e).unwrap();
        if d.map != a.map || e.map != a.map {
            obs.fail("entry-points-agree", format!("Styled::new(..).draw(): {}; draw_styled on the native target: {}", map_diff(&a.map, &d.map), map_diff(&a.map, &e.map)));
        }
    })
}

fn img_paths<I: ImageDrawable>(img: &I, case: &ImgCase, obs: &mut Obs)
where
    I::Color: std::hash::Hash + core::fmt::Debug,
{
    let at = Point::new(case.at.0, case.at.1);
    let image = if case.center { Image::with_center(img, at) } else { Image::new(img, at) };
    let mut a = RecD::<I::Color>::new();
    image.draw(&mut a).unwrap();
    let mut b = RecN::<I::Color>::new();
    image.draw(&mut b).unwrap();
    let mut c = RecN::<I::Color>::new().draining();
    image.draw(&mut c).unwrap();
    obs.outcome(&a.map);
    obs.nontrivial_if(!a.map.is_empty() || !b.map.is_empty());
    obs.class(if case.sub2.is_some() { "sub-sub-image" } else if case.sub.is_some() { "sub-image" } else { "image" });
    obs.class_if(case.w as usize * case.bpp as usize % 8 != 0, "row-padding");
    if a.map != b.map {
        obs.fail("draw-default==draw-native", format!("image: {}", map_diff(&a.map, &b.map)));
    }
    if a.map != c.map {
        obs.fail("draw-default==draw-draining", format!("image: {}", map_diff(&a.map, &c.map)));
    }
    egverif::proto::consumption_protocol("image", &image, obs);
}

fn check_img(case: &ImgCase, obs: &mut Obs) {
    with_image!(case, IC, |img| img_paths(img, case, obs), panic!("bad image length"))
}

fn check_text<C: TestColor>(case: &TextCase, obs: &mut Obs) {
    let t = case.build::<C>();
    let mut a = RecD::<C>::new();
    let ra = t.draw(&mut a).unwrap();
    let mut b = RecN::<C>::new();
    let rb = t.draw(&mut b).unwrap();
    let mut c = RecN::<C>::new().draining();
    let rc = t.draw(&mut c).unwrap();
    obs.outcome(&a.map);
    obs.nontrivial_if(!a.map.is_empty() || !b.map.is_empty());
    obs.class("text");
    obs.class_if(case.bg, "text-background");
    obs.class_if(case.underline != 0 || case.strike != 0, "text-decoration");
    obs.class_if(case.text.contains('\n'), "text-multiline");
    if a.map != b.map {
        obs.fail("draw-default==draw-native", format!("text: {}", map_diff(&a.map, &b.map)));
    }
    if a.map != c.map {
        obs.fail("draw-default==draw-draining", format!("text: {}", map_diff(&a.map, &c.map)));
    }
    if ra != rb || ra != rc {
        obs.fail("draw-result-same-on-all-targets", format!("{ra:?} {rb:?} {rc:?}"));
    }
    egverif::proto::consumption_protocol("text", &t, obs);
}

/// A drawable on a target with a small bounding box that it overhangs: the two target flavours must
/// leave the same pixels *inside the target's box* (what lies outside is dropped by a real display).
#[derive(Clone, Debug, PartialEq, Eq, Hash, Serialize, Deserialize)]
enum BoundedCase {
    Img { img: ImgCase, tb: (i32, i32, u32, u32) },
    Text { text: TextCase, tb: (i32, i32, u32, u32) },
    Prim { prim: Styled2, tb: (i32, i32, u32, u32) },
}

fn bounded<D: Drawable>(d: &D, tb: &(i32, i32, u32, u32), obs: &mut Obs)
where
    D::Color: std::hash::Hash + core::fmt::Debug,
{
    let bb = rect(tb.0, tb.1, tb.2, tb.3);
    let mut a = RecD::<D::Color>::with_box(bb);
    let _ = d.draw(&mut a);
    let mut b = RecN::<D::Color>::with_box(bb);
    let _ = d.draw(&mut b);
    let inside = |m: &Map<D::Color>| -> Map<D::Color> { m.iter().filter(|(k, _)| bb.contains(Point::new(k.0, k.1))).map(|(k, v)| (*k, *v)).collect() };
    let (ia, ib) = (inside(&a.map), inside(&b.map));
    obs.outcome(&ia);
    obs.nontrivial_if(!ia.is_empty() || !ib.is_empty());
    obs.class("bounded-target");
    obs.class_if(a.map.len() > ia.len() && !ia.is_empty(), "overhangs-the-target");
    if ia != ib {
        obs.fail("draw-default==draw-native-inside-the-target", format!("target box {:?}: {}", tb, map_diff(&ia, &ib)));
    }
    // a native target that streams only its visible window: it jumps over the invisible colours of a
    // fill_contiguous stream with one `nth` per gap (the documented meaning: the colours are in row-major order)
    let mut c = RecN::<D::Color>::with_box(bb).skipping();
    let _ = d.draw(&mut c);
    let ic = inside(&c.map);
    if ia != ic {
        obs.fail("draw-default==draw-native-inside-the-target", format!("target box {:?}, native target that skips invisible colours with nth(): {}", tb, map_diff(&ia, &ic)));
    }
}

fn img_bounded<I: ImageDrawable>(img: &I, case: &ImgCase, tb: &(i32, i32, u32, u32), obs: &mut Obs)
where
    I::Color: std::hash::Hash + core::fmt::Debug,
{
    let at = Point::new(case.at.0, case.at.1);
    let image = if case.center { Image::with_center(img, at) } else { Image::new(img, at) };
    bounded(&image, tb, obs);
}

fn check_bounded(c: &BoundedCase, obs: &mut Obs) {
    match c {
        BoundedCase::Img { img, tb } => with_image!(img, IC, |i| img_bounded(i, img, tb, obs), panic!("bad image")),
        BoundedCase::Text { text, tb } => bounded(&text.build::<Rgb565>(), tb, obs),
        BoundedCase::Prim { prim, tb } => with_styled!(&prim.shape, prim.sty.build::<Rgb565>(), Rgb565, |s| {
            bounded(&s, tb, obs);
            // pixels() fed to draw_iter must leave the same pixels inside the target's box as draw()
            let bb = rect(tb.0, tb.1, tb.2, tb.3);
            let mut a = RecD::<Rgb565>::with_box(bb);
            let _ = s.draw(&mut a);
            let mut c = RecD::<Rgb565>::with_box(bb);
            let _ = c.draw_iter(s.pixels());
            let inside = |m: &Map<Rgb565>| -> Map<Rgb565> { m.iter().filter(|(k, _)| bb.contains(Point::new(k.0, k.1))).map(|(k, v)| (*k, *v)).collect() };
            let (ia, ic) = (inside(&a.map), inside(&c.map));
            // the library's own adapters in front of an unbounded parent: draw() and pixels() via draw_iter must leave
            // the same pixels on the parent (cropped and translated do not clip, clipped does)
            {
                use embedded_graphics::draw_target::DrawTargetExt;
                macro_rules! through {
                    ($name:expr, $m:ident, $arg:expr) => {{
                        let mut p1 = RecN::<Rgb565>::new();
                        let _ = s.draw(&mut p1.$m($arg));
                        let mut p2 = RecD::<Rgb565>::new();
                        let _ = s.draw(&mut p2.$m($arg));
                        let mut p3 = RecD::<Rgb565>::new();
                        let _ = p3.$m($arg).draw_iter(s.pixels());
                        if p1.map != p3.map || p2.map != p3.map {
                            obs.fail("draw==pixels-through-an-adapter", format!("{} with area {:?}: native parent vs pixels(): {}; draw_iter-only parent vs pixels(): {}", $name, tb, map_diff(&p1.map, &p3.map), map_diff(&p2.map, &p3.map)));
                        }
                    }};
                }
                through!("cropped", cropped, &bb);
                through!("clipped", clipped, &bb);
                through!("translated", translated, Point::new(3, -2));
            }
            egverif::proto::consumption_protocol("styled primitive", &s, obs);
            obs.class_if(!ic.is_empty() && s.primitive.bounding_box().intersection(&bb).is_zero_sized(), "only-the-stroke-reaches-the-target");
            if ia != ic {
                obs.fail("draw==pixels-inside-the-target", format!("target box {:?}: a=draw(), b=pixels(): {}", tb, map_diff(&ia, &ic)));
            }
        }),
    }
}

/// the primitive kinds of the bounded-target group at `at`, with the size of the bare shape's bounding box
fn bounded_shapes(at: (i32, i32), tier: Tier) -> Vec<(Shape, (u32, u32))> {
    let mut shapes = vec![
        (Shape::Rect { x: at.0, y: at.1, w: 4, h: 3 }, (4, 3)),
        (Shape::Circle { x: at.0, y: at.1, d: 5 }, (5, 5)),
        (Shape::Ellipse { x: at.0, y: at.1, w: 6, h: 3 }, (6, 3)),
        (Shape::rrect_eq(at.0, at.1, 6, 5, (2, 2)), (6, 5)),
        (Shape::Tri { a: at, b: (at.0 + 5, at.1 + 1), c: (at.0 + 1, at.1 + 4) }, (6, 5)),
        (Shape::Line { a: at, b: (at.0 + 5, at.1 + 3) }, (6, 4)),
        (Shape::Sector { x: at.0, y: at.1, d: 6, start: 40, sweep: 800 }, (6, 6)),
    ];
    // a polyline whose vertices lie far from where translate() puts it
    shapes.push((Shape::Polyline { pts: vec![(at.0 + 100, at.1 - 70), (at.0 + 104, at.1 - 69), (at.0 + 100, at.1 - 67)], tx: -100, ty: 70 }, (5, 4)));
    if tier.is_thorough() {
        shapes.push((Shape::Arc { x: at.0, y: at.1, d: 7, start: 40, sweep: 800 }, (7, 7)));
    }
    shapes
}

fn bounded_cases(tier: Tier) -> Vec<BoundedCase> {
    let mut v = vec![];
    for tb in [(0, 0, 8u32, 6u32), (-3, 2, 7, 5), (19, 23, 8, 6)] {
        let offs = [(-2, 1), (1, -2), (tb.2 as i32 - 2, 1), (1, tb.3 as i32 - 1), (-2, -2), (0, 0), (tb.2 as i32 - 1, tb.3 as i32 - 1), (-20, 0), (1, -4), (-3, -5)];
        for o in offs {
            let at = (tb.0 + o.0, tb.1 + o.1);
            for bpp in BPPS {
                for (w, h) in [(4u32, 3u32), (3, 4), (1, 1), (9, 7)] {
                    let data = pattern(0, required_len(w, h, bpp));
                    for sub in [None, Some((1, 1, 2, 2)), Some((0, 1, 9, 1))] {
                        v.push(BoundedCase::Img { img: ImgCase { bpp, be: bpp == 4, w, h, data: data.clone(), sub, sub2: None, at, center: false }, tb });
                    }
                }
            }
            for (tc, bg, ul, st) in [(true, true, 0u8, 0u8), (true, false, 2, 0), (false, true, 0, 1), (true, true, 2, 1)] {
                for text in ["ab", "a\nbc", "W"] {
                    for font in ["ascii::FONT_4X6", "ascii::FONT_6X9"] {
                        v.push(BoundedCase::Text { text: TextCase { font: font.into(), text: text.replace("\\n", "\n"), text_color: tc, bg, underline: ul, strike: st, baseline: 0, align: 0, lh: (1, 100), pos: at }, tb });
                    }
                }
            }
            for (sh, _) in bounded_shapes(at, tier) {
                for sty in styles(2) {
                    v.push(BoundedCase::Prim { prim: Styled2 { shape: sh.clone(), sty }, tb });
                }
            }
        }
        // the bare shape lies just outside the target on one side; only its stroke reaches into the box
        for (sh0, (w, h)) in bounded_shapes((0, 0), tier) {
            let _ = sh0;
            for at in [(tb.0 - w as i32, tb.1 + 1), (tb.0 + 1, tb.1 - h as i32), (tb.0 + tb.2 as i32, tb.1 + 1), (tb.0 + 1, tb.1 + tb.3 as i32), (tb.0 - w as i32, tb.1 - h as i32)] {
                let sh = bounded_shapes(at, tier).into_iter().find(|(s, _)| std::mem::discriminant(s) == std::mem::discriminant(&sh0)).unwrap().0;
                for sty in styles(4).into_iter().filter(|s| s.stroke && s.w >= 2) {
                    v.push(BoundedCase::Prim { prim: Styled2 { shape: sh.clone(), sty }, tb });
                }
            }
        }
        // axis-parallel lines one row above / one column left of the box
        for (a, b) in [((tb.0 + 1, tb.1 - 1), (tb.0 + 5, tb.1 - 1)), ((tb.0 - 1, tb.1 + 1), (tb.0 - 1, tb.1 + 4)), ((tb.0 + tb.2 as i32 + 1, tb.1), (tb.0 + tb.2 as i32 + 1, tb.1 + 3)), ((tb.0 + 4, tb.1 + tb.3 as i32 + 1), (tb.0, tb.1 + tb.3 as i32 + 1))] {
            for sty in styles(5).into_iter().filter(|s| s.stroke && !s.fill && s.w >= 2) {
                v.push(BoundedCase::Prim { prim: Styled2 { shape: Shape::Line { a, b }, sty }, tb });
            }
        }
    }
    v
}

fn image_cases(tier: Tier) -> Vec<ImgCase> {
    let mut v = vec![];
    let (mw, mh) = tier.pick((5, 4), (9, 6));
    for bpp in BPPS {
        for be in [false, true] {
            for w in 0..=mw {
                for h in 0..=mh {
                    let data = pattern(0, required_len(w, h, bpp));
                    let subs: Vec<(Option<(i32, i32, u32, u32)>, Option<(i32, i32, u32, u32)>)> = vec![
                        (None, None),
                        (Some((1, 1, 2, 2)), None),
                        (Some((0, 0, w, 1)), None),
                        (Some((-1, 0, 3, 9)), None),
                        (Some((1, 0, 4, 3)), Some((1, 1, 2, 1))),
                        (Some((w as i32, 0, 1, 1)), None),
                    ];
                    for (sub, sub2) in subs {
                        for (at, center) in [((-2, 3), false), ((4, 1), true)] {
                            v.push(ImgCase { bpp, be, w, h, data: data.clone(), sub, sub2, at, center });
                        }
                    }
                }
            }
        }
    }
    v
}


/// arcs and sectors only (the family whose trigonometry changes with the `fixed_point` feature)
fn angle_shapes(pos: P2) -> Vec<Shape> {
    shape_catalogue(false, pos).into_iter().filter(|s| matches!(s, Shape::Arc { .. } | Shape::Sector { .. })).collect()
}

fn run_part(run: &mut Run) {
    let tier = run.tier;
    let t = tier.is_thorough();
    let w = tier.pick(5, 8);
    match run.part.as_str() {
        "shapes" => {
            run.sweep_vec("shapes-rgb565", "shape catalogue (rect, circle, ellipse, rounded rect equal+unequal radii, line, arc, sector) x S(W) at position (-2,-3)",
                || {
                    let mut st = styles(w);
                    st.extend(styles_same_color(3));
                    product(&shape_catalogue(t, (-2, -3)), &st)
                }, check_prim::<Rgb565>);
            run.sweep_vec("shapes-rgb565-pos2", "reduced shape catalogue x S(3) at position (-20,-17) (fully negative)",
                || product(&shape_catalogue(false, (-20, -17)), &styles(3)), check_prim::<Rgb565>);
            run.sweep_vec("display-scale", "display-scale catalogue (every primitive kind, 200..=320 px plus one 1024 px shape, at three positions far from / across the origin) x 6 styles (widths 0, 1, 3, 20, 64, 300)", || product(&display_scale_catalogue(), &display_scale_styles()), check_prim::<Rgb565>);
            run.sweep_vec("shapes-binary", "shape catalogue x S(2) in BinaryColor", || product(&shape_catalogue(false, (-2, -3)), &styles(2)), check_prim::<BinaryColor>);
            run.sweep_vec("shapes-gray8", "shape catalogue x S(2) in Gray8", || product(&shape_catalogue(false, (3, -1)), &styles(2)), check_prim::<Gray8>);
        }
        "angles-fixed-point" => {
            run.sweep_vec("arcs-sectors-fixed-point", "arcs and sectors of the catalogue x S(W) in the fixed_point build", || product(&angle_shapes((-2, -3)), &styles(w)), check_prim::<Rgb565>);
        }
        "triangles" => {
            run.sweep_vec("triangles-rgb565", "all vertex triples of a 5x5 grid stride 2 (thorough: plus 6x6 stride 1) x S(W)",
                || product(&triangle_catalogue(t, (-2, -3)), &styles(w)), check_prim::<Rgb565>);
            run.sweep_vec("triangles-binary", "all vertex triples of a 4x4 grid stride 2 x S(2) in BinaryColor",
                || product(&tri_grid(4, 2, -3, -2), &styles(2)), check_prim::<BinaryColor>);
        }
        "polylines" => {
            run.sweep_vec("polylines-rgb565", "polylines with 0..=4 (thorough 5) vertices on a 3x3 grid stride 3, translate field zero and non-zero x stroke styles",
                || {
                    let sh = polyline_catalogue(tier.pick(4, 5), 3, 3, (-3, -2));
                    let st: Vec<Sty> = styles(tier.pick(4, 6)).into_iter().filter(|s| !s.fill || s.w <= 1).collect();
                    product(&sh, &st)
                }, check_prim::<Rgb565>);
        }
        "images-text" => {
            run.sweep_vec("images", "7 raw widths x 2 data orders x sizes 0..=5x0..=4 (thorough 9x6) x 6 sub-image choices x Image::new/with_center", || image_cases(tier), check_img);
            let fonts: Vec<usize> = if t { (0..FONTS.len()).step_by(7).collect() } else { vec![font_index("ascii::FONT_4X6"), font_index("iso_8859_1::FONT_6X10"), font_index("jis_x0201::FONT_10X20")] };
            run.sweep_vec("text-rgb565", "fonts x 11 strings x 16 colour/decoration combinations x 4 baselines x 3 alignments x line heights",
                || text_catalogue(&fonts, &CATALOGUE_STRINGS, &[(1, 100), (0, 7)], (-3, 5)), check_text::<Rgb565>);
            run.sweep_vec("bounded-target", "images (7 widths, 4 sizes, sub-images), text and eight primitive kinds (the polyline moved into place by translate()) x S(2) hanging over every edge and corner of three small target boxes (at the origin, across the y axis, and a window further from the origin than its own size), and the same kinds x stroke widths 2..=4 (lines to 5) placed just outside each side so that only the stroke reaches into the box: both target flavours compared inside the target's box", || bounded_cases(tier), check_bounded);
            run.sweep_vec("text-custom-fonts", "three synthetic fonts with character spacing 1, 2, 3 x 7 strings x 16 colour/decoration sets x 4 baselines x 3 alignments", || text_catalogue_named(&CUSTOM_FONTS, &CUSTOM_STRINGS, &[(1, 100)], (-3, 5)), check_text::<Rgb565>);
            run.sweep_vec("text-binary", "one font x strings x decorations in BinaryColor",
                || text_catalogue(&[font_index("ascii::FONT_6X9")], &CATALOGUE_STRINGS, &[(1, 100)], (2, 2)), check_text::<BinaryColor>);
        }
        p => panic!("unknown part {p}"),
    }
}

fn main() {
    egverif::fw::main(Prop {
        id: "C01",
        level: "exploration",
        rule: "every drawable of the listed catalogue (distinct by construction, counted by hash) is rendered on a draw_iter-only target that inherits the trait defaults, on a target with native fill_contiguous/fill_solid/clear, and (styled primitives) through pixels() fed to draw_iter; non-trivial = at least one pixel drawn; the unbounded last-write-wins pixel maps must be equal",
        assumptions: &["bounded to the listed catalogue (sizes, grids, stroke widths, fonts, strings)", "the harness's native target implements the documented meaning of fill_contiguous (row-major, stops at the shorter of area and stream), fill_solid and clear"],
        parts: |_| vec![PartSpec::new("shapes", "verif"), PartSpec::new("triangles", "verif"), PartSpec::new("polylines", "verif"), PartSpec::new("images-text", "verif"), PartSpec::new("angles-fixed-point", "verif_fp")],
        run_part,
        required_classes: |_| vec!["rect", "circle", "ellipse", "rrect", "triangle", "line", "arc", "sector", "polyline", "fill-only", "stroke-only", "fill+stroke", "stroke-colour-absent-width>0", "width-0", "fully-negative", "image", "sub-image", "sub-sub-image", "row-padding", "text", "text-background", "text-decoration", "text-multiline", "bounded-target", "consumption-protocol", "overhangs-the-target", "only-the-stroke-reaches-the-target"],
        crash_is_verdict: false,
    })
}
