//! Plain-data text cases, the table of all built-in fonts, and construction of real `Text` objects.

use crate::catalog::{TestColor, P2};
use embedded_graphics::{
    geometry::Point,
    mono_font::{MonoFont, MonoTextStyle, MonoTextStyleBuilder},
    text::{Alignment, Baseline, LineHeight, Text, TextStyleBuilder},
};
use serde::{Deserialize, Serialize};

macro_rules! font_table {
    ($( $m:ident : [$($f:ident),*] ),* $(,)?) => {
        /// (subset module, font constant name, font)
        pub static FONTS: &[(&str, &str, &MonoFont<'static>)] = &[
            $( $( (stringify!($m), stringify!($f), &embedded_graphics::mono_font::$m::$f), )* )*
        ];
    };
}

macro_rules! all22 {
    ($($m:ident),*) => {
        font_table!(
            $( $m: [FONT_4X6, FONT_5X7, FONT_5X8, FONT_6X9, FONT_6X10, FONT_6X12, FONT_6X13, FONT_6X13_BOLD,
                 FONT_6X13_ITALIC, FONT_7X13, FONT_7X13_BOLD, FONT_7X13_ITALIC, FONT_7X14, FONT_7X14_BOLD, FONT_8X13,
                 FONT_8X13_BOLD, FONT_8X13_ITALIC, FONT_9X15, FONT_9X15_BOLD, FONT_9X18, FONT_9X18_BOLD, FONT_10X20], )*
            jis_x0201: [FONT_6X13, FONT_7X14, FONT_8X13, FONT_9X15, FONT_9X18, FONT_10X20]
        );
    };
}
all22!(ascii, iso_8859_1, iso_8859_10, iso_8859_13, iso_8859_14, iso_8859_15, iso_8859_16, iso_8859_2, iso_8859_3, iso_8859_4, iso_8859_5, iso_8859_7, iso_8859_9);

pub const SUBSETS: [&str; 14] = [
    "ascii", "iso_8859_1", "iso_8859_10", "iso_8859_13", "iso_8859_14", "iso_8859_15", "iso_8859_16", "iso_8859_2", "iso_8859_3",
    "iso_8859_4", "iso_8859_5", "iso_8859_7", "iso_8859_9", "jis_x0201",
];

pub fn font_name(i: usize) -> String {
    format!("{}::{}", FONTS[i].0, FONTS[i].1)
}
/// Leaked synthetic fonts by spec "custom:<cw>x<ch>+<spacing>" (8 glyphs 'a'..='h', replacement index 1,
/// 3 glyphs per atlas row), created once per process.
fn custom_font(spec: &str) -> Option<&'static MonoFont<'static>> {
    use std::collections::HashMap;
    use std::sync::{Mutex, OnceLock};
    static CACHE: OnceLock<Mutex<HashMap<String, &'static MonoFont<'static>>>> = OnceLock::new();
    let cache = CACHE.get_or_init(|| Mutex::new(HashMap::new()));
    let mut g = cache.lock().unwrap();
    if let Some(f) = g.get(spec) {
        return Some(*f);
    }
    let (size, spacing) = spec.split_once('+')?;
    let (cw, ch) = size.split_once('x')?;
    let (cw, ch, spacing): (u32, u32, u32) = (cw.parse().ok()?, ch.parse().ok()?, spacing.parse().ok()?);
    use embedded_graphics::geometry::Size;
    use embedded_graphics::image::ImageRaw;
    use embedded_graphics::mono_font::mapping::StrGlyphMapping;
    use embedded_graphics::mono_font::DecorationDimensions;
    use embedded_graphics::pixelcolor::BinaryColor;
    let gpr = 3u32;
    let rows = (8 + gpr - 1) / gpr;
    let (iw, ih) = (cw * gpr, ch * rows);
    let bpr = ((iw + 7) / 8) as usize;
    let mut data = vec![0u8; bpr * ih as usize];
    for y in 0..ih {
        for x in 0..iw {
            if (x * 7 + y * 13 + (x / cw.max(1)) * 3 + (y / ch.max(1)) * 5) % 3 != 0 {
                data[y as usize * bpr + (x / 8) as usize] |= 0x80 >> (x % 8);
            }
        }
    }
    let data: &'static [u8] = Box::leak(data.into_boxed_slice());
    let mapping: &'static StrGlyphMapping<'static> = Box::leak(Box::new(StrGlyphMapping::new("\0ah", 1)));
    let font: &'static MonoFont<'static> = Box::leak(Box::new(MonoFont {
        image: ImageRaw::<BinaryColor>::new(data, Size::new(iw, ih)).ok()?,
        character_size: Size::new(cw, ch),
        character_spacing: spacing,
        baseline: ch.saturating_sub(1),
        strikethrough: DecorationDimensions::new(ch / 2, 1),
        underline: DecorationDimensions::new(ch + 1, 1),
        glyph_mapping: mapping,
    }));
    g.insert(spec.to_string(), font);
    Some(font)
}

pub fn font_by_name(name: &str) -> Option<&'static MonoFont<'static>> {
    if let Some(spec) = name.strip_prefix("custom:") {
        return custom_font(spec);
    }
    let (m, f) = name.split_once("::")?;
    FONTS.iter().find(|e| e.0 == m && e.1 == f).map(|e| e.2)
}
/// indices of the fonts of one subset
pub fn fonts_of(subset: &str) -> Vec<usize> {
    (0..FONTS.len()).filter(|&i| FONTS[i].0 == subset).collect()
}

#[derive(Clone, Debug, PartialEq, Eq, Hash, Serialize, Deserialize)]
pub struct TextCase {
    /// "subset::FONT_NAME"
    pub font: String,
    pub text: String,
    pub text_color: bool,
    pub bg: bool,
    /// 0 none, 1 with text colour, 2 custom colour
    pub underline: u8,
    pub strike: u8,
    /// 0 Top, 1 Bottom, 2 Middle, 3 Alphabetic
    pub baseline: u8,
    /// 0 Left, 1 Center, 2 Right
    pub align: u8,
    /// (0, n) = n pixels, (1, n) = n percent
    pub lh: (u8, u32),
    pub pos: P2,
}

pub fn baseline(b: u8) -> Baseline {
    match b {
        0 => Baseline::Top,
        1 => Baseline::Bottom,
        2 => Baseline::Middle,
        _ => Baseline::Alphabetic,
    }
}
pub fn align(a: u8) -> Alignment {
    match a {
        0 => Alignment::Left,
        1 => Alignment::Center,
        _ => Alignment::Right,
    }
}
pub fn line_height(lh: (u8, u32)) -> LineHeight {
    if lh.0 == 0 {
        LineHeight::Pixels(lh.1)
    } else {
        LineHeight::Percent(lh.1)
    }
}

pub fn char_style<'a, C: TestColor>(font: &'a MonoFont<'a>, text_color: bool, bg: bool, underline: u8, strike: u8) -> MonoTextStyle<'a, C> {
    let mut b = MonoTextStyleBuilder::<C>::new().font(font);
    if text_color {
        b = b.text_color(C::TEXT);
    }
    if bg {
        b = b.background_color(C::BG);
    }
    b = match underline {
        1 => b.underline(),
        2 => b.underline_with_color(C::UNDER),
        _ => b,
    };
    b = match strike {
        1 => b.strikethrough(),
        2 => b.strikethrough_with_color(C::STRIKE),
        _ => b,
    };
    b.build()
}

/// the same style configured in the other builder order: colours and decorations first, font last
pub fn char_style_font_last<'a, C: TestColor>(font: &'a MonoFont<'a>, text_color: bool, bg: bool, underline: u8, strike: u8) -> MonoTextStyle<'a, C> {
    let mut b = MonoTextStyleBuilder::<C>::new();
    if text_color {
        b = b.text_color(C::TEXT);
    }
    if bg {
        b = b.background_color(C::BG);
    }
    b = match underline {
        1 => b.underline(),
        2 => b.underline_with_color(C::UNDER),
        _ => b,
    };
    b = match strike {
        1 => b.strikethrough(),
        2 => b.strikethrough_with_color(C::STRIKE),
        _ => b,
    };
    b.font(font).build()
}

/// the same style derived from a fully loaded other style: `MonoTextStyleBuilder::from(&other)`, then every setting
/// replaced or reset
pub fn char_style_derived<'a, C: TestColor>(font: &'a MonoFont<'a>, text_color: bool, bg: bool, underline: u8, strike: u8) -> MonoTextStyle<'a, C> {
    let loaded = MonoTextStyleBuilder::<C>::new().font(font).text_color(C::BG).background_color(C::TEXT).underline_with_color(C::STRIKE).strikethrough_with_color(C::UNDER).build();
    let mut b = MonoTextStyleBuilder::from(&loaded).font(font);
    b = if text_color { b.text_color(C::TEXT) } else { b.reset_text_color() };
    b = if bg { b.background_color(C::BG) } else { b.reset_background_color() };
    b = match underline {
        1 => b.underline(),
        2 => b.underline_with_color(C::UNDER),
        _ => b.reset_underline(),
    };
    b = match strike {
        1 => b.strikethrough(),
        2 => b.strikethrough_with_color(C::STRIKE),
        _ => b.reset_strikethrough(),
    };
    b.build()
}

/// the same style derived from itself (`From<&MonoTextStyle>` must keep every setting) with decorations set twice
pub fn char_style_rebuilt<'a, C: TestColor>(font: &'a MonoFont<'a>, text_color: bool, bg: bool, underline: u8, strike: u8) -> MonoTextStyle<'a, C> {
    let first = char_style::<C>(font, text_color, bg, underline, strike);
    MonoTextStyleBuilder::from(&first).build()
}

impl TextCase {
    pub fn font(&self) -> &'static MonoFont<'static> {
        font_by_name(&self.font).expect("font name")
    }
    pub fn style<C: TestColor>(&self) -> MonoTextStyle<'static, C> {
        char_style(self.font(), self.text_color, self.bg, self.underline, self.strike)
    }
    pub fn text_style(&self) -> embedded_graphics::text::TextStyle {
        TextStyleBuilder::new().alignment(align(self.align)).baseline(baseline(self.baseline)).line_height(line_height(self.lh)).build()
    }
    pub fn build<'a, C: TestColor>(&'a self) -> Text<'a, MonoTextStyle<'static, C>> {
        Text::with_text_style(&self.text, Point::new(self.pos.0, self.pos.1), self.style::<C>(), self.text_style())
    }
    pub fn transparent(&self) -> bool {
        !self.text_color && !self.bg && self.underline == 0 && self.strike == 0
    }
    pub fn with_text(&self, s: &str) -> TextCase {
        let mut c = self.clone();
        c.text = s.to_string();
        c
    }
}

/// the 16 colour/decoration combinations used by the catalogue: text colour, background, underline, strikethrough present/absent
pub fn deco16() -> Vec<(bool, bool, u8, u8)> {
    let mut v = vec![];
    for t in [true, false] {
        for b in [false, true] {
            for u in [0u8, 2] {
                for s in [0u8, 1] {
                    v.push((t, b, u, s));
                }
            }
        }
    }
    v
}

pub const CATALOGUE_STRINGS: [&str; 11] = ["", "a", "ab", "a\nbc", "ab\r\nc", "\n", "a\n", "ab\n\nc", "Hello World!\nx", "\u{7f}\u{1F600}z", "a\tb"];

/// text part of the drawable catalogue DC: fonts × strings × 16 decorations × 4 baselines × 3 alignments
pub fn text_catalogue(fonts: &[usize], strings: &[&str], line_heights: &[(u8, u32)], pos: P2) -> Vec<TextCase> {
    let mut v = vec![];
    for &f in fonts {
        for s in strings {
            for (t, b, u, st) in deco16() {
                for bl in 0..4u8 {
                    for al in 0..3u8 {
                        for &lh in line_heights {
                            v.push(TextCase { font: font_name(f), text: s.to_string(), text_color: t, bg: b, underline: u, strike: st, baseline: bl, align: al, lh, pos });
                        }
                    }
                }
            }
        }
    }
    v
}

/// index of a font by "subset::NAME"
pub fn font_index(name: &str) -> usize {
    (0..FONTS.len()).find(|&i| font_name(i) == name).expect("font")
}

/// Builds a synthetic `MonoFont` (8 glyphs 'a'..='h', replacement index 1) with the given cell size,
/// spacing and glyphs per row over a generated atlas, and passes it to `f`.
pub fn with_custom_font<R>(cw: u32, ch: u32, spacing: u32, glyphs_per_row: u32, f: impl FnOnce(&MonoFont<'_>) -> R) -> R {
    with_custom_font_mapping(cw, ch, spacing, glyphs_per_row, "\0ah", f)
}

/// the same synthetic font with a caller-chosen StrGlyphMapping string (replacement index 1)
pub fn with_custom_font_mapping<R>(cw: u32, ch: u32, spacing: u32, glyphs_per_row: u32, mapping_str: &str, f: impl FnOnce(&MonoFont<'_>) -> R) -> R {
    use embedded_graphics::geometry::Size;
    use embedded_graphics::image::ImageRaw;
    use embedded_graphics::mono_font::mapping::StrGlyphMapping;
    use embedded_graphics::mono_font::DecorationDimensions;
    use embedded_graphics::pixelcolor::BinaryColor;
    let gpr = glyphs_per_row.max(1);
    let rows = (8 + gpr - 1) / gpr;
    let (iw, ih) = (cw * gpr, ch * rows);
    let bpr = ((iw + 7) / 8) as usize;
    let mut data = vec![0u8; bpr * ih as usize];
    for y in 0..ih {
        for x in 0..iw {
            if (x * 7 + y * 13 + (x / cw.max(1)) * 3 + (y / ch.max(1)) * 5) % 3 != 0 {
                data[y as usize * bpr + (x / 8) as usize] |= 0x80 >> (x % 8);
            }
        }
    }
    let image = ImageRaw::<BinaryColor>::new(&data, Size::new(iw, ih)).expect("atlas size");
    let mapping = StrGlyphMapping::new(mapping_str, 1);
    let font = MonoFont {
        image,
        character_size: Size::new(cw, ch),
        character_spacing: spacing,
        baseline: ch.saturating_sub(1),
        strikethrough: DecorationDimensions::new(ch / 2, 1),
        underline: DecorationDimensions::new(ch + 1, 1),
        glyph_mapping: &mapping,
    };
    f(&font)
}

/// like `text_catalogue` but for fonts given by name (built-in "subset::NAME" or "custom:<cw>x<ch>+<spacing>")
pub fn text_catalogue_named(fonts: &[&str], strings: &[&str], line_heights: &[(u8, u32)], pos: P2) -> Vec<TextCase> {
    let mut v = vec![];
    for f in fonts {
        for s in strings {
            for (t, b, u, st) in deco16() {
                for bl in 0..4u8 {
                    for al in 0..3u8 {
                        for &lh in line_heights {
                            v.push(TextCase { font: f.to_string(), text: s.to_string(), text_color: t, bg: b, underline: u, strike: st, baseline: bl, align: al, lh, pos });
                        }
                    }
                }
            }
        }
    }
    v
}

pub const CUSTOM_FONTS: [&str; 3] = ["custom:5x7+1", "custom:3x2+3", "custom:6x9+2"];
pub const CUSTOM_STRINGS: [&str; 7] = ["", "a", "ab", "abc\nde", "a\n\nb", "hz\r\nc", "gfedcba"];
