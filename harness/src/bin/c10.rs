//! C10 Framebuffer reads back what was written, in the layout of ImageRaw
//! Explicit-state exploration of write histories on real framebuffers (macro-instantiated const
//! generics) beside a map model; dedup on the byte array.
use egverif::fw::*;
use egverif::imgs::*;
use egverif::targets::*;
use embedded_graphics::framebuffer::Framebuffer;
use embedded_graphics::image::{GetPixel, Image};
use embedded_graphics::pixelcolor::raw::{BigEndianLsb0, LittleEndianMsb0, RawData};
use embedded_graphics::pixelcolor::*;
use embedded_graphics::prelude::*;
use embedded_graphics::primitives::{PrimitiveStyle, Rectangle};
use serde::{Deserialize, Serialize};
use std::collections::BTreeMap;
use std::hash::{Hash, Hasher};

type P2 = (i32, i32);

/// uniform, object-safe view of the concrete framebuffer types (set_pixel is an inherent method
/// per raw type); colours cross this interface as raw values
trait Fb: Send + Sync {
    fn w(&self) -> usize;
    fn h(&self) -> usize;
    fn n(&self) -> usize;
    fn bpp(&self) -> u8;
    fn be(&self) -> bool;
    fn clone_box(&self) -> Box<dyn Fb>;
    fn set_px(&mut self, p: Point, raw: u32);
    fn get_px(&self, p: Point) -> Option<u32>;
    fn bytes(&self) -> &[u8];
    fn bytes_mut(&mut self) -> &mut [u8];
    fn image_map(&self) -> Map<u32>;
    /// as_image().sub_image(area) drawn at the area's own position
    fn sub_image_map(&self, area: (i32, i32, u32, u32)) -> Map<u32>;
    /// as_image() drawn at `at` into a target whose bounding box is `win` (clipped: into an unbounded native target
    /// behind `clipped(&win)`); the pixels that arrived inside `win`
    fn windowed_image_map(&self, at: P2, win: (i32, i32, u32, u32), clipped: bool) -> Map<u32>;
    fn apply(&mut self, a: &Act, mask: u32);
    /// the ordered pixel writes the drawable of `Act::Drawable` makes on an unbounded recording target
    fn drawable_writes(&self, kind: u8, v: u32, mask: u32) -> Vec<(P2, u32)>;
}

macro_rules! fb_impl {
    ($name:ident, $c:ty, $bo:ty, $be:expr, $w:expr, $h:expr, $extra:expr) => {
        type $name = Framebuffer<$c, <$c as PixelColor>::Raw, $bo, $w, $h, { embedded_graphics::framebuffer::buffer_size::<$c>($w, $h) + $extra }>;
        impl Fb for $name {
            fn w(&self) -> usize {
                $w
            }
            fn h(&self) -> usize {
                $h
            }
            fn n(&self) -> usize {
                embedded_graphics::framebuffer::buffer_size::<$c>($w, $h) + $extra
            }
            fn bpp(&self) -> u8 {
                <<$c as PixelColor>::Raw as RawData>::BITS_PER_PIXEL as u8
            }
            fn be(&self) -> bool {
                $be
            }
            fn clone_box(&self) -> Box<dyn Fb> {
                Box::new(self.clone())
            }
            fn set_px(&mut self, p: Point, raw: u32) {
                self.set_pixel(p, col::<$c>(raw))
            }
            fn get_px(&self, p: Point) -> Option<u32> {
                self.pixel(p).map(raw_u32)
            }
            fn bytes(&self) -> &[u8] {
                self.data()
            }
            fn bytes_mut(&mut self) -> &mut [u8] {
                self.data_mut()
            }
            fn image_map(&self) -> Map<u32> {
                let img = self.as_image();
                let mut t = RecD::<$c>::new();
                Image::new(&img, Point::zero()).draw(&mut t).unwrap();
                t.map.iter().map(|(k, c)| (*k, raw_u32(*c))).collect()
            }
            fn windowed_image_map(&self, at: P2, win: (i32, i32, u32, u32), clipped: bool) -> Map<u32> {
                use embedded_graphics::draw_target::DrawTargetExt;
                let img = self.as_image();
                let w = rect(win.0, win.1, win.2, win.3);
                let image = Image::new(&img, Point::new(at.0, at.1));
                let m = if clipped {
                    let mut t = RecN::<$c>::new();
                    image.draw(&mut t.clipped(&w)).unwrap();
                    t.map
                } else {
                    let mut t = RecD::<$c>::with_box(w);
                    image.draw(&mut t).unwrap();
                    t.map
                };
                m.iter().filter(|(k, _)| clipped || w.contains(Point::new(k.0, k.1))).map(|(k, c)| (*k, raw_u32(*c))).collect()
            }
            fn sub_image_map(&self, a: (i32, i32, u32, u32)) -> Map<u32> {
                use embedded_graphics::image::ImageDrawableExt;
                let img = self.as_image();
                let sub = img.sub_image(&rect(a.0, a.1, a.2, a.3));
                let mut t = RecN::<$c>::new().draining();
                Image::new(&sub, Point::new(a.0.max(0), a.1.max(0))).draw(&mut t).unwrap();
                t.map.iter().map(|(k, c)| (*k, raw_u32(*c))).collect()
            }
            fn apply(&mut self, a: &Act, m: u32) {
                match a {
                    Act::Set(p, v) => self.set_pixel(Point::new(p.0, p.1), col::<$c>(*v)),
                    Act::DrawIter(v) => self.draw_iter(v.iter().map(|(p, c)| Pixel(Point::new(p.0, p.1), col::<$c>(*c)))).unwrap(),
                    Act::FillSolid(r, v) => self.fill_solid(&rect(r.0, r.1, r.2, r.3), col::<$c>(*v)).unwrap(),
                    Act::FillContig(r, len) => self.fill_contiguous(&rect(r.0, r.1, r.2, r.3), (0..*len).map(|i| col::<$c>((i.wrapping_mul(0x9E37_79B9) >> 3) & m))).unwrap(),
                    Act::Clear(v) => self.clear(col::<$c>(*v & m)).unwrap(),
                    Act::DrawRect(r, v) => {
                        let style: PrimitiveStyle<$c> = embedded_graphics::primitives::PrimitiveStyleBuilder::new()
                            .stroke_color(col::<$c>(*v & m))
                            .stroke_width(1)
                            .stroke_alignment(embedded_graphics::primitives::StrokeAlignment::Inside)
                            .build();
                        Rectangle::new(Point::new(r.0, r.1), Size::new(r.2, r.3)).into_styled(style).draw(self).unwrap()
                    }
                    Act::Drawable(kind, v) => draw_kind::<$c, _>(self, *kind, *v & m, $w, $h),
                }
            }
            fn drawable_writes(&self, kind: u8, v: u32, m: u32) -> Vec<(P2, u32)> {
                let mut t = RecD::<$c>::new().logging();
                draw_kind::<$c, _>(&mut t, kind, v & m, $w, $h);
                let mut out = vec![];
                for c in &t.log {
                    if let Call::DrawIter(px) = c {
                        out.extend(px.iter().map(|(p, c)| (*p, raw_u32(*c))));
                    }
                }
                out
            }
        }
    };
}

fn draw_kind<C: PixelColor, T: DrawTarget<Color = C>>(t: &mut T, kind: u8, v: u32, w: usize, h: usize)
where
    T::Error: core::fmt::Debug,
{
    use embedded_graphics::mono_font::{ascii::FONT_4X6, MonoTextStyleBuilder};
    use embedded_graphics::primitives::{Circle, Line, PrimitiveStyleBuilder, Triangle};
    use embedded_graphics::text::{Baseline, Text};
    let (c1, c2): (C, C) = (col(v), col(!v & if core::mem::size_of::<C>() == 0 { 0 } else { u32::MAX } & mask_of::<C>()));
    match kind {
        0 => Circle::new(Point::new(-1, -1), 4).into_styled(PrimitiveStyleBuilder::new().fill_color(c1).stroke_color(c2).stroke_width(1).build()).draw(t).unwrap(),
        1 => Line::new(Point::new(-1, 0), Point::new(w as i32, h as i32 - 1)).into_styled(PrimitiveStyle::with_stroke(c1, 1)).draw(t).unwrap(),
        2 => {
            Text::with_baseline("a", Point::new(1, -1), MonoTextStyleBuilder::new().font(&FONT_4X6).text_color(c1).background_color(c2).build(), Baseline::Top).draw(t).unwrap();
        }
        _ => Triangle::new(Point::new(0, 0), Point::new(w as i32 + 1, 1), Point::new(1, h as i32)).into_styled(PrimitiveStyleBuilder::new().fill_color(c2).stroke_color(c1).stroke_width(2).build()).draw(t).unwrap(),
    }
}

fn mask_of<C: PixelColor>() -> u32 {
    let bpp = <C::Raw as RawData>::BITS_PER_PIXEL;
    if bpp >= 32 {
        u32::MAX
    } else {
        (1u32 << bpp) - 1
    }
}

/// colour from a raw value; `from_u32` documents that only the low bits of the value are used, so set_pixel,
/// draw_iter and fill_solid hand it unmasked values
fn col<C: PixelColor>(raw: u32) -> C {
    C::from(<C::Raw as RawData>::from_u32(raw))
}

#[derive(Clone, Debug, PartialEq, Eq, Hash, Serialize, Deserialize)]
enum Act {
    Set(P2, u32),
    DrawIter(Vec<(P2, u32)>),
    FillSolid((i32, i32, u32, u32), u32),
    FillContig((i32, i32, u32, u32), u32),
    Clear(u32),
    DrawRect((i32, i32, u32, u32), u32),
    /// an arbitrary drawable: 0 filled+stroked circle, 1 line across the buffer, 2 text with background, 3 thick triangle
    Drawable(u8, u32),
}

#[derive(Clone, Debug, PartialEq, Eq, Hash, Serialize, Deserialize)]
struct Init {
    config: String,
    /// false: zeroed (new()), true: data_mut() filled with 0xA5 first
    sentinel: bool,
}

struct St {
    fb: Box<dyn Fb>,
    /// raw value of every pixel inside W x H
    model: BTreeMap<P2, u32>,
    initial: Vec<u8>,
}

impl Clone for St {
    fn clone(&self) -> Self {
        St { fb: self.fb.clone_box(), model: self.model.clone(), initial: self.initial.clone() }
    }
}

struct M {
    acts: Vec<Act>,
    make: fn() -> Box<dyn Fb>,
}

fn inside(f: &dyn Fb, p: &P2) -> bool {
    p.0 >= 0 && p.1 >= 0 && (p.0 as usize) < f.w() && (p.1 as usize) < f.h()
}
fn mask(f: &dyn Fb) -> u32 {
    if f.bpp() == 32 {
        u32::MAX
    } else {
        (1 << f.bpp()) - 1
    }
}
fn row_major(a: &(i32, i32, u32, u32)) -> Vec<P2> {
    let mut v = vec![];
    for y in 0..a.3 as i32 {
        for x in 0..a.2 as i32 {
            v.push((a.0 + x, a.1 + y));
        }
    }
    v
}

fn check_state(s: &St, obs: &mut Obs) {
    let f = &*s.fb;
    let (w, h, bpp, be) = (f.w(), f.h(), f.bpp(), f.be());
    let used = required_len(w as u32, h as u32, bpp);
    // pixel(p) == model, None outside
    for y in -1..=h as i32 {
        for x in -1..=w as i32 {
            let got = f.get_px(Point::new(x, y));
            let want = s.model.get(&(x, y)).copied();
            if got != want {
                obs.fail("pixel(p)==last-written", format!("pixel(({x},{y})) = {:?}, model {:?}", got, want));
                return;
            }
        }
    }
    for p in [(i32::MIN, 0), (0, i32::MAX), (w as i32, 0), (0, h as i32), (i32::MAX, i32::MAX)] {
        if f.get_px(Point::new(p.0, p.1)).is_some() {
            obs.fail("pixel-none-outside", format!("pixel({:?}) is Some", p));
        }
    }
    // bytes beyond the used prefix never modified
    if f.bytes()[used..] != s.initial[used..] {
        obs.fail("bytes-beyond-used-prefix-untouched", format!("tail {:02x?} was {:02x?}", &f.bytes()[used..], &s.initial[used..]));
    }
    // layout: the pixel bits of data() are those an independent packer produces for the model
    let mut packed = f.bytes()[..used].to_vec();
    for ((x, y), v) in &s.model {
        // index of the pixel in a stream with padded rows
        let padded_w = if bpp < 8 { bytes_per_row(w as u32, bpp) * (8 / bpp as usize) } else { w };
        let idx = *y as u128 * padded_w as u128 + *x as u128;
        packed = model_store(&packed, bpp, be, idx, *v).expect("model pixel inside buffer");
    }
    if packed != f.bytes()[..used] {
        obs.fail("data()-is-documented-layout", format!("data {:02x?}; packing the model into it gives {:02x?}", &f.bytes()[..used], packed));
    }
    // as_image() draws the content
    let im = f.image_map();
    let want: Map<u32> = s.model.iter().map(|(k, v)| (*k, *v)).collect();
    if im != want {
        obs.fail("as_image-reproduces-content", map_diff(&im, &want));
    }
    // as_image() seen through target windows and through the clipped adapter: cut at the left/top by a window at the
    // origin, two rows and a column cut by a window inside, three rows cut
    for (at, win, clipped) in [((-1, -2), (0, 0, w as u32, h as u32), false), ((0, 0), (1, 2, w as u32, h as u32), true), ((0, 0), (0, 3, w as u32 + 1, h as u32), true), ((2, 1), (1, 1, w as u32, h as u32), false)] {
        {
            let got = f.windowed_image_map(at, win, clipped);
            let wanted: Map<u32> = s.model.iter().map(|(k, v)| ((k.0 + at.0, k.1 + at.1), *v)).filter(|(k, _)| k.0 >= win.0 && k.1 >= win.1 && (k.0 as i64) < win.0 as i64 + win.2 as i64 && (k.1 as i64) < win.1 as i64 + win.3 as i64).collect();
            if got != wanted {
                obs.fail("as_image-through-a-target-window-reproduces-content", format!("image at {:?}, window {:?}, behind clipped(): {clipped}: {}", at, win, map_diff(&got, &wanted)));
                break;
            }
        }
    }
    // the same through sub-images of as_image(): the whole box, and everything but the first column and row
    for area in [(0, 0, w as u32, h as u32), (1, 1, w as u32, h as u32), (-1, 0, w as u32, 9)] {
        let got = f.sub_image_map(area);
        let wanted: Map<u32> = s.model.iter().filter(|(k, _)| k.0 >= area.0 && k.1 >= area.1 && (k.0 as i64) < area.0 as i64 + area.2 as i64 && (k.1 as i64) < area.1 as i64 + area.3 as i64).map(|(k, v)| (*k, *v)).collect();
        if got != wanted {
            obs.fail("sub-image-of-as_image-reproduces-content", format!("area {:?}: {}", area, map_diff(&got, &wanted)));
            break;
        }
    }
}

impl Model for M {
    type State = St;
    type Init = Init;
    type Action = Act;
    fn init(&self, i: &Init) -> St {
        let mut fb = (self.make)();
        if i.sentinel {
            for b in fb.bytes_mut() {
                *b = 0xA5;
            }
        }
        let initial = fb.bytes().to_vec();
        // the model of a non-zero start is initialised from an independent decode of the bytes
        let mut model = BTreeMap::new();
        for y in 0..fb.h() as i32 {
            for x in 0..fb.w() as i32 {
                model.insert((x, y), model_pixel(&initial, fb.bpp(), fb.be(), fb.w() as u32, fb.h() as u32, x, y).unwrap());
            }
        }
        St { fb, model, initial }
    }
    fn actions(&self, _i: &Init, _s: &St, _d: usize) -> Vec<Act> {
        self.acts.clone()
    }
    fn check_state(&self, _i: &Init, s: &St, obs: &mut Obs) {
        check_state(s, obs)
    }
    fn step(&self, _i: &Init, s: &St, a: &Act, obs: &mut Obs) -> St {
        let mut n = s.clone();
        let m = mask(&*s.fb);
        let (w, h, bpp) = (s.fb.w(), s.fb.h(), s.fb.bpp());
        let writes: Vec<(P2, u32)> = match a {
            Act::Set(p, v) => vec![(*p, *v)],
            Act::DrawIter(v) => v.clone(),
            Act::FillSolid(r, v) => row_major(r).into_iter().map(|p| (p, *v)).collect(),
            Act::FillContig(r, len) => row_major(r).into_iter().take(*len as usize).enumerate().map(|(i, p)| (p, (i as u32).wrapping_mul(0x9E37_79B9) >> 3)).collect(),
            Act::Clear(v) => row_major(&(0, 0, w as u32, h as u32)).into_iter().map(|p| (p, *v)).collect(),
            Act::DrawRect(r, v) => {
                // 1 px inside stroke of the rectangle: its border points
                let mut wr = vec![];
                for p in row_major(r) {
                    let edge = p.0 == r.0 || p.1 == r.1 || p.0 == r.0 + r.2 as i32 - 1 || p.1 == r.1 + r.3 as i32 - 1;
                    if edge {
                        wr.push((p, *v));
                    }
                }
                wr
            }
            Act::Drawable(kind, v) => s.fb.drawable_writes(*kind, *v, m),
        };
        let mut any_inside = false;
        for (p, v) in &writes {
            if inside(&*s.fb, p) {
                n.model.insert(*p, v & m);
                any_inside = true;
            }
        }
        n.fb.apply(a, m);
        obs.nontrivial_if(any_inside);
        obs.class_if(!any_inside && !writes.is_empty(), "write-completely-outside");
        obs.class_if(any_inside && writes.iter().any(|(p, _)| !inside(&*s.fb, p)), "write-partly-outside");
        obs.class_if(s.fb.be(), "big-endian-lsb0");
        obs.class_if(bpp < 8, "sub-byte");
        obs.class_if(bpp > 8, "multi-byte");
        obs.class_if(bpp < 8 && (w * bpp as usize) % 8 != 0, "row-not-on-byte-boundary");
        obs.class_if(s.fb.n() > required_len(w as u32, h as u32, bpp), "oversized-buffer");
        if !any_inside && n.fb.bytes() != s.fb.bytes() {
            obs.fail("write-outside-changes-no-byte", format!("{:02x?} -> {:02x?}", s.fb.bytes(), n.fb.bytes()));
        }
        check_state(&n, obs);
        n
    }
    fn key(&self, s: &St) -> u64 {
        let mut h = std::collections::hash_map::DefaultHasher::new();
        s.fb.bytes().hash(&mut h);
        h.finish()
    }
}

fn alphabet(w: i32, h: i32, thorough: bool) -> Vec<Act> {
    let pts: Vec<P2> = vec![(0, 0), (w - 1, 0), (0, h - 1), (w - 1, h - 1), (w / 2, h / 2), (-1, 0), (w, 0), (0, h), (i32::MIN, i32::MAX)];
    let mut v = vec![];
    let mut seen = vec![];
    for p in pts {
        if seen.contains(&p) {
            continue;
        }
        seen.push(p);
        for c in [0u32, u32::MAX, 0x2D5A_96C3] {
            v.push(Act::Set(p, c));
        }
    }
    v.push(Act::DrawIter(vec![((1, 0), 0x1234_5678), ((w, h), 7), ((0, h - 1), 0xFEDC_BA95)]));
    v.push(Act::FillSolid((w - 2, -1, 3, 3), 0x5555_5555));
    // zero-sized areas that start inside the buffer and extend far beyond it (nothing to write)
    v.push(Act::FillSolid((w / 2, 0, 0, h as u32 + 1000), 0x1357_9BDF));
    v.push(Act::FillSolid((0, h - 1, w as u32 + 1000, 0), 0x1357_9BDF));
    v.push(Act::Clear(0xAAAA_AAAB));
    v.push(Act::DrawRect((0, 0, w as u32, h as u32), 0x7777_7777));
    v.push(Act::Drawable(2, 0x3C3C_3C3D));
    if thorough {
        v.push(Act::Drawable(0, 0x1111_1112));
        v.push(Act::Drawable(1, 0xFFFF_FFFF));
        v.push(Act::Drawable(3, 0x0F1E_2D3C));
        v.push(Act::FillContig((-1, 0, (w + 1) as u32, 2), (w + 3) as u32));
        v.push(Act::Clear(0));
        v.push(Act::DrawRect((1, -1, w as u32, (h + 1) as u32), 0x0F0F_0F0F));
    }
    v
}

macro_rules! sizes {
    ($c:ty) => {
        fb_impl!(Le1x1, $c, LittleEndianMsb0, false, 1, 1, 0);
        fb_impl!(Le3x2, $c, LittleEndianMsb0, false, 3, 2, 0);
        fb_impl!(Le5x3, $c, LittleEndianMsb0, false, 5, 3, 0);
        fb_impl!(Le8x2, $c, LittleEndianMsb0, false, 8, 2, 0);
        fb_impl!(Le9x2, $c, LittleEndianMsb0, false, 9, 2, 0);
        fb_impl!(Le1x1x, $c, LittleEndianMsb0, false, 1, 1, 3);
        fb_impl!(Le3x2x, $c, LittleEndianMsb0, false, 3, 2, 3);
        fb_impl!(Le5x3x, $c, LittleEndianMsb0, false, 5, 3, 3);
        fb_impl!(Le8x2x, $c, LittleEndianMsb0, false, 8, 2, 3);
        fb_impl!(Le9x2x, $c, LittleEndianMsb0, false, 9, 2, 3);
        fb_impl!(Be1x1, $c, BigEndianLsb0, true, 1, 1, 0);
        fb_impl!(Be3x2, $c, BigEndianLsb0, true, 3, 2, 0);
        fb_impl!(Be5x3, $c, BigEndianLsb0, true, 5, 3, 0);
        fb_impl!(Be8x2, $c, BigEndianLsb0, true, 8, 2, 0);
        fb_impl!(Be9x2, $c, BigEndianLsb0, true, 9, 2, 0);
        fb_impl!(Be1x1x, $c, BigEndianLsb0, true, 1, 1, 3);
        fb_impl!(Be3x2x, $c, BigEndianLsb0, true, 3, 2, 3);
        fb_impl!(Be5x3x, $c, BigEndianLsb0, true, 5, 3, 3);
        fb_impl!(Be8x2x, $c, BigEndianLsb0, true, 8, 2, 3);
        fb_impl!(Be9x2x, $c, BigEndianLsb0, true, 9, 2, 3);
        pub fn run_all(run: &mut Run, depth: usize) {
            explore_one(run, depth, || Box::new(<Le1x1>::new()));
            explore_one(run, depth, || Box::new(<Le3x2>::new()));
            explore_one(run, depth, || Box::new(<Le5x3>::new()));
            explore_one(run, depth, || Box::new(<Le8x2>::new()));
            explore_one(run, depth, || Box::new(<Le9x2>::new()));
            explore_one(run, depth, || Box::new(<Le1x1x>::new()));
            explore_one(run, depth, || Box::new(<Le3x2x>::new()));
            explore_one(run, depth, || Box::new(<Le5x3x>::new()));
            explore_one(run, depth, || Box::new(<Le8x2x>::new()));
            explore_one(run, depth, || Box::new(<Le9x2x>::new()));
            explore_one(run, depth, || Box::new(<Be1x1>::new()));
            explore_one(run, depth, || Box::new(<Be3x2>::new()));
            explore_one(run, depth, || Box::new(<Be5x3>::new()));
            explore_one(run, depth, || Box::new(<Be8x2>::new()));
            explore_one(run, depth, || Box::new(<Be9x2>::new()));
            explore_one(run, depth, || Box::new(<Be1x1x>::new()));
            explore_one(run, depth, || Box::new(<Be3x2x>::new()));
            explore_one(run, depth, || Box::new(<Be5x3x>::new()));
            explore_one(run, depth, || Box::new(<Be8x2x>::new()));
            explore_one(run, depth, || Box::new(<Be9x2x>::new()));
        }
    };
}
/// larger buffers (rows and columns beyond 255, more than 256 bytes), explored one level less deep
macro_rules! big_sizes {
    ($c:ty) => {
        fb_impl!(Le300x2, $c, LittleEndianMsb0, false, 300, 2, 0);
        fb_impl!(Be2x300, $c, BigEndianLsb0, true, 2, 300, 1);
        fb_impl!(Be67x5, $c, BigEndianLsb0, true, 67, 5, 0);
        pub fn run_big(run: &mut Run, depth: usize) {
            explore_one(run, depth, || Box::new(<Le300x2>::new()));
            explore_one(run, depth, || Box::new(<Be2x300>::new()));
            explore_one(run, depth, || Box::new(<Be67x5>::new()));
        }
    };
}
mod b1 { use super::*; big_sizes!(BinaryColor); }
mod b4 { use super::*; big_sizes!(Gray4); }
mod b16 { use super::*; big_sizes!(Rgb565); }
mod c1 { use super::*; sizes!(BinaryColor); }
mod c2 { use super::*; sizes!(Gray2); }
mod c4 { use super::*; sizes!(Gray4); }
mod c8 { use super::*; sizes!(Gray8); }
mod c16 { use super::*; sizes!(Rgb565); }
mod c24 { use super::*; sizes!(Rgb888); }
mod c32 { use super::*; sizes!(C32); }

fn config_name(f: &dyn Fb) -> String {
    format!("{}bpp-{}-{}x{}-N{}", f.bpp(), if f.be() { "BigEndianLsb0" } else { "LittleEndianMsb0" }, f.w(), f.h(), f.n())
}

fn explore_one(run: &mut Run, depth: usize, make: fn() -> Box<dyn Fb>) {
    let proto = make();
    let name = config_name(&*proto);
    // in replay mode only the configuration of the recorded case is run
    if let Some(rp) = &run.replay {
        if rp.case["init"]["config"].as_str() != Some(name.as_str()) {
            return;
        }
    }
    let m = M { acts: alphabet(proto.w() as i32, proto.h() as i32, run.tier.is_thorough()), make };
    let inits = vec![Init { config: name.clone(), sentinel: false }, Init { config: name, sentinel: true }];
    let stats = run.explore("write-histories", "per configuration (7 depths x 2 data orders x sizes {1x1,3x2,5x3,8x2,9x2} x buffer {exact,+3 bytes}): all sequences of set_pixel (corners, middle, 4 outside points x 3 values) / draw_iter / fill_solid partly outside / clear / stroked rectangle / text with background (thorough: circle, line, thick triangle) from the zeroed and the 0xA5-filled framebuffer, deduplicated on the byte array", &m, inits.clone(), depth);
    if run.tier.is_thorough() || proto.w() == 3 {
        // second engine over the same transition function (quick: the 3x2 configurations only)
        run.cross_check_stateright("write-histories", std::sync::Arc::new(m), inits, depth, &stats);
    }
}

fn run_part(run: &mut Run) {
    let depth = run.tier.pick(3, 4);
    match run.part.as_str() {
        "1bpp" => {
            c1::run_all(run, depth);
            b1::run_big(run, depth - 1);
        }
        "2bpp" => c2::run_all(run, depth),
        "4bpp" => {
            c4::run_all(run, depth);
            b4::run_big(run, depth - 1);
        }
        "8bpp" => c8::run_all(run, depth),
        "16bpp" => {
            c16::run_all(run, depth);
            b16::run_big(run, depth - 1);
        }
        "24bpp" => c24::run_all(run, depth),
        "32bpp" => c32::run_all(run, depth),
        p => panic!("unknown part {p}"),
    }
}

fn main() {
    egverif::fw::main(Prop {
        id: "C10",
        level: "model_checking",
        rule: "explicit-state BFS over write histories on 140 small and 9 larger (300x2, 2x300, 67x5 at 1, 4 and 16 bpp, one level less deep) real framebuffer configurations beside a map model (key = the byte array; the model of a state that passed its invariants equals an independent decode of the bytes, so equal bytes have equal futures); on every state: pixel() on the area grown by 1, None outside, tail bytes untouched, data() pixel bits equal an independent packing of the model in the documented layout, as_image() drawn equals the model; writes completely outside change no byte",
        assumptions: &["padding bits of partially used row bytes are not asserted", "bounded to the listed configurations, action alphabet and depth"],
        parts: |_| ["1bpp", "2bpp", "4bpp", "8bpp", "16bpp", "24bpp", "32bpp"].iter().map(|p| PartSpec::new(p, "verif")).collect(),
        run_part,
        required_classes: |_| vec!["write-completely-outside", "write-partly-outside", "big-endian-lsb0", "sub-byte", "multi-byte", "row-not-on-byte-boundary", "oversized-buffer"],
        crash_is_verdict: false,
    })
}
