#!/usr/bin/env python3
"""Generates /verif/MANIFEST.json from the table below (kept in one place so it stays valid)."""
import json, os, sys
HERE = os.path.dirname(os.path.dirname(os.path.abspath(__file__)))

ENUM = "bounded exhaustive enumeration of a listed finite input domain, executed on the real code, each case compared with a reference model (small-scope model checking of a sequential library)"
CHECKS = {
  # id: (category, technique, level text, level note, design ref)
  "C01": ("exploration", "bounded exhaustive input enumeration, differential over three rendering paths on reference targets",
          "Every drawable of the listed catalogue (all primitive kinds x sizes up to N x styles S(W) x positions, all vertex triples of small grids, polylines up to 4/5 vertices, images of 7 raw widths x 2 data orders x sub-images, text) is rendered through draw() on a draw_iter-only target inheriting the trait defaults, draw() on a native target and pixels() via draw_iter; the unbounded pixel maps must be equal. Exhaustive up to the listed bounds.",
          "The harness's native target is the reference for the documented meaning of fill_contiguous/fill_solid/clear; bounded catalogue.", "6/C01"),
  "C02": ("exploration", "bounded exhaustive input enumeration, containment of every recorded pixel in bounding_box()",
          "Every drawable of the catalogue plus text over all 292 built-in fonts x decorations x baselines x alignments x line heights is drawn on unbounded recording targets; every pixel must lie in bounding_box(), transparent styles must draw nothing. Exhaustive up to the listed bounds; fonts are covered completely.",
          "Only containment (not tightness) is asserted; Rectangle::contains is trusted (C16).", "6/C02"),
  "C07": ("exploration", "bounded exhaustive input enumeration, metamorphic oracle (translate then draw == draw then shift)",
          "Every (drawable, style, offset) of the listed product: pixel map of x.translate(d) equals the shifted map of x; boxes, points() and contains() shift; translate_mut == translate; polylines also with moved vertices; text next position shifts. Exhaustive up to the listed bounds.",
          "Bounded catalogue and offsets; objects straddle the origin so offsets cross both axes.", "6/C07"),
  "C05": ("exploration", "bounded exhaustive input enumeration vs. reference (points() sequence == row-major filter of contains())",
          "Every shape of a listed finite domain (all sizes up to N, all equal and a product of unequal corner radii, all non-degenerate vertex triples of small grids, start/sweep angle grids, two positions) is run through the real points()/contains(); the verdict is exhaustive up to those bounds.",
          "Trusts Rectangle::contains/bounding_box arithmetic of the probe (decided separately by C16); contains() is probed on the bounding box grown by 2 plus six far points.", "6/C05"),
  "C06": ("exploration", "bounded exhaustive input enumeration vs. reference (pixel map predicted from fill_area()/stroke_area())",
          "All four closed shapes x all sizes up to N (incl. strokes wider than the shape) x all styles S(W) are drawn through draw() on both reference targets and through pixels(); each map must equal the map predicted from contains() of fill_area()/stroke_area(); exhaustive up to the bounds.",
          "contains() of the returned areas defines the areas (C05 ties it to points()); bounded to listed sizes/widths.", "6/C06"),
}
NOT_YET = {}

def main():
    props = [json.loads(l) for l in open(os.path.join(HERE, "properties.jsonl"))]
    checks = []
    na = []
    for p in props:
        i = p["id"]
        if i in CHECKS:
            cat, tech, text, note, ref = CHECKS[i]
            checks.append({
                "property_id": i,
                "quick_cmd": f"./check {i} quick",
                "thorough_cmd": f"./check {i} thorough",
                "evidence_file": f"/verif/evidence/{i}.json",
                "replay_cmd_template": f"./check {i} --replay {{path}}",
                "engine": "egverif-xplore" if cat == "model_checking" else ("egverif-fault" if cat == "fault_enumeration" else "egverif-enum"),
                "level_claimed": {"category": cat, "text": text, "design_ref": f"DESIGN.md section {ref}"},
                "level_note": note,
                "technique": tech,
            })
        else:
            na.append({"property_id": i, "reason": NOT_YET.get(i, "check not built yet in this revision of /verif (planned, see DESIGN.md section 6); not a statement that the technique cannot apply")})
    m = {
        "version": 1,
        "setup_cmd": "./check --build-all",
        "hooks": {
            "guard": "--cfg eg_verif",
            "enable": "no hooks are needed: every anchored mechanism is reachable through the public API; the harness crate depends on /repo by path and is rebuilt from the working tree by every ./check invocation",
            "baseline_off_cmd": "cd /repo && cargo nextest run --workspace --no-fail-fast --offline || cargo test --workspace --no-fail-fast --offline",
            "source_commits": [],
            "add_only": True,
        },
        "engines": [
            {"name": "egverif-enum", "path": "harness/src/fw.rs (Run::sweep)", "serves_properties": [c["property_id"] for c in checks if c["engine"] == "egverif-enum"],
             "kind_free_text": "bounded exhaustive enumeration of listed finite input domains on the real code, parallel and deterministic, with vacuity guards (coverage classes) and reference-model oracles"},
            {"name": "egverif-xplore", "path": "harness/src/fw.rs (Run::explore)", "serves_properties": [c["property_id"] for c in checks if c["engine"] == "egverif-xplore"],
             "kind_free_text": "explicit-state breadth-first search over operation histories; the transition function is the real code, every transition is compared with a reference model; canonical-state deduplication; cross-checked by stateright in the thorough tier"},
            {"name": "egverif-fault", "path": "harness/src/targets.rs (Rec::failing_at)", "serves_properties": [c["property_id"] for c in checks if c["engine"] == "egverif-fault"],
             "kind_free_text": "exhaustive fault enumeration: for every k in 1..=n the run in which the k-th call on the underlying draw target fails"},
        ],
        "checks": checks,
        "not_applicable": na,
        "notes": "All checks: ./check <ID> quick|thorough (exit 0 held / 1 VIOLATION / >=2 machinery). Known findings: known_findings.txt. See DESIGN.md.",
    }
    json.dump(m, open(os.path.join(HERE, "MANIFEST.json"), "w"), indent=1)
    print("MANIFEST.json written:", len(checks), "checks,", len(na), "not_applicable")

main()
