//! egverif — bounded exhaustive verification harness for embedded-graphics (see /verif/DESIGN.md)
pub mod catalog;
pub mod colors;
pub mod fw;
pub mod imgs;
pub mod proto;
pub mod targets;
pub mod texts;
pub mod webcolors;
